#!/usr/bin/env python3
"""Cross-check of the harness's reference model (refint) against Python's int/float.

Each transcript line is `op arg...` with hexadecimal integers (optional leading '-').  The
result stated on the line was computed by refint; it is recomputed here.  A disagreement is a
MACHINERY failure of the harness (exit 1 here -> exit 2 of the check), never a verdict about
num-bigint."""
import sys, struct, math

def H(s):
    return int(s, 16)

def floor_root(x, n):
    if x < 2:
        return x
    lo, hi = 1, 1 << (x.bit_length() // n + 1)
    while lo < hi:
        mid = (lo + hi + 1) // 2
        if mid ** n <= x:
            lo = mid
        else:
            hi = mid - 1
    return lo

def f_bits(n, fmt_pack, fmt_unpack, inf_bits):
    try:
        f = float(n)
    except OverflowError:
        return inf_bits
    if fmt_pack == '<d':
        return struct.unpack('<Q', struct.pack('<d', f))[0]
    raise ValueError

def f32_bits(n):
    # correctly rounded int -> f32: do it with integer arithmetic (Python has no f32 rounding of big ints)
    if n == 0:
        return 0
    nb = n.bit_length()
    p = 24
    if nb <= p:
        mant = n << (p - nb)
        exp = nb - 1
    else:
        sh = nb - p
        top = n >> sh
        rem = n & ((1 << sh) - 1)
        half = 1 << (sh - 1)
        exp = nb - 1
        if rem > half or (rem == half and (top & 1)):
            top += 1
            if top >> p:
                top >>= 1
                exp += 1
        mant = top
    if exp > 127:
        return 0x7f800000
    return ((exp + 127) << 23) | (mant & ((1 << 23) - 1))

def check(parts):
    op = parts[0]
    a = parts[1:]
    if op == 'add':
        return H(a[0]) + H(a[1]) == H(a[2])
    if op == 'sub':
        return H(a[0]) - H(a[1]) == H(a[2])
    if op == 'mul':
        return H(a[0]) * H(a[1]) == H(a[2])
    if op == 'divrem':
        x, y = H(a[0]), H(a[1])
        return (x // y, x % y) == (H(a[2]), H(a[3]))
    if op == 'sdiv':
        kind, x, y, q, r = a[0], H(a[1]), H(a[2]), H(a[3]), H(a[4])
        if kind == 'floor':
            return (x // y, x % y) == (q, r)
        if kind == 'trunc':
            qq = abs(x) // abs(y)
            if (x < 0) != (y < 0):
                qq = -qq
            return (qq, x - qq * y) == (q, r)
        if kind == 'euclid':
            rr = x % abs(y)
            return ((x - rr) // y, rr) == (q, r)
        if kind == 'ceil':
            return -((-x) // y) == q
        return False
    if op == 'pow':
        return H(a[0]) ** int(a[1]) == H(a[2])
    if op == 'gcd':
        return math.gcd(H(a[0]), H(a[1])) == H(a[2])
    if op == 'modpow':
        return pow(H(a[0]), H(a[1]), H(a[2])) == H(a[3])
    if op == 'shl':
        return H(a[0]) << int(a[1]) == H(a[2])
    if op == 'shr':
        return H(a[0]) >> int(a[1]) == H(a[2])
    if op == 'and':
        return H(a[0]) & H(a[1]) == H(a[2])
    if op == 'or':
        return H(a[0]) | H(a[1]) == H(a[2])
    if op == 'xor':
        return H(a[0]) ^ H(a[1]) == H(a[2])
    if op == 'not':
        return ~H(a[0]) == H(a[1])
    if op == 'f64':
        n = H(a[0])
        try:
            bits = struct.unpack('<Q', struct.pack('<d', float(n)))[0]
        except OverflowError:
            bits = 0x7ff0000000000000
        return bits == H(a[1])
    if op == 'f32':
        return f32_bits(H(a[0])) == H(a[1])
    if op == 'fromf64':
        f = struct.unpack('<d', struct.pack('<Q', H(a[0])))[0]
        if math.isnan(f) or math.isinf(f):
            return a[1] == 'None'
        return a[1] != 'None' and int(f) == H(a[1])
    if op == 'fromf32':
        f = struct.unpack('<f', struct.pack('<I', H(a[0])))[0]
        if math.isnan(f) or math.isinf(f):
            return a[1] == 'None'
        return a[1] != 'None' and int(f) == H(a[1])
    if op == 'radix':
        n, radix = H(a[0]), int(a[1])
        digs = [int(x) for x in a[2].split(',')] if a[2] else []
        v = 0
        for d in digs:
            if d >= radix:
                return False
            v = v * radix + d
        return v == n and (len(digs) == 1 or digs[0] != 0)
    if op == 'root':
        x, n, r = H(a[0]), int(a[1]), H(a[2])
        return floor_root(x, n) == r
    if op == 'sbytes':
        n = H(a[0])
        bs = bytes.fromhex(a[1])
        if int.from_bytes(bs, 'little', signed=True) != n:
            return False
        # minimal
        l = 1
        while True:
            try:
                n.to_bytes(l, 'little', signed=True)
                break
            except OverflowError:
                l += 1
        return l == len(bs)
    if op == 'cmp':
        x, y = H(a[0]), H(a[1])
        return ((x > y) - (x < y)) == int(a[2])
    if op == 'dec':
        return str(H(a[0])) == a[1]
    raise KeyError(op)

def main():
    if hasattr(sys, 'set_int_max_str_digits'):
        sys.set_int_max_str_digits(0)
    lines = 0
    bad = 0
    unknown = {}
    for path in sys.argv[1:]:
        with open(path) as f:
            for line in f:
                parts = line.split()
                if not parts:
                    continue
                lines += 1
                try:
                    ok = check(parts)
                except KeyError as e:
                    unknown[str(e)] = unknown.get(str(e), 0) + 1
                    continue
                except Exception as e:  # malformed line: machinery problem
                    ok = False
                if not ok:
                    bad += 1
                    if bad <= 5:
                        print("PYREF MISMATCH:", line.strip()[:400])
    print("PYREF lines=%d mismatches=%d unknown_ops=%s" % (lines, bad, unknown))
    sys.exit(1 if bad or unknown else 0)

if __name__ == '__main__':
    main()
