# C16 orchestration (sourced by ./check): K1 feature-subset build matrix, K2 transcript equality
_t0=$(date +%s.%N)
_rc=0
python3 "$ROOT/tools/c16_matrix.py" "$tier"; _r=$?; [ $_r -gt $_rc ] && _rc=$_r
_parts="k1"
mkdir -p "$ROOT/target/transcripts16"
_built=""
_lib_broken=""
# the configurations have their own target directories: build them concurrently
_cfgs="rel relcheck stdmin nostd nostdcheck"
# the true dev profile (opt-level 0) is slow for the reference model: thorough tier only
[ "$tier" = "thorough" ] && _cfgs="$_cfgs dev"
for cfg in $_cfgs; do
  ( if [ "$cfg" = nostd ]; then build $cfg c16 c06 c14; elif [ "$cfg" = stdmin ]; then build $cfg c16; elif [ "$cfg" = rel ] || [ "$cfg" = relcheck ] || [ "$cfg" = dev ]; then build $cfg c16 c14 c10; else build $cfg c16 c14; fi; echo $? > "$ROOT/target/c16-build-$cfg.rc" ) &
done
wait
for cfg in $_cfgs; do
  if [ "$(cat "$ROOT/target/c16-build-$cfg.rc" 2>/dev/null)" = 0 ]; then
    NBMC_NO_PYREF=1 NBMC_PART=$cfg NBMC_CONFIG=$cfg NBMC_TRANSCRIPT_OUT="$ROOT/target/transcripts16/$cfg.txt" "$(bindir $cfg)/c16" "$tier"; _r=$?
    [ $_r -gt $_rc ] && _rc=$_r
    _parts="$_parts $cfg"; _built="$_built $cfg"
  else
    # a configuration that does not build is K1's finding when it is the library's fault
    echo "C16 K2: configuration $cfg not built; transcript comparison skips it" >&2
    if grep -q "could not compile .num-bigint" "$ROOT/target/build-$cfg.log"; then
      # the library itself does not compile in this configuration: that is the finding (K1 reports the feature
      # subset too when it is part of its lattice), not a machinery failure
      _lib_broken="$_lib_broken $cfg"
      _why=$(grep -m1 -E "^error" "$ROOT/target/build-$cfg.log" | cut -c1-200 | tr '"' "'")
      _rp="replays/C16-build-$cfg.json"
      python3 - "$ROOT/$_rp" "$cfg" "$_why" "$tier" <<'PY'
import json,sys
json.dump({"property":"C16","tier":sys.argv[4],"config":"matrix","shell_cmd":"./check C16 "+sys.argv[4],
  "violation":{"key":"build:%s"%sys.argv[2],"what":"the crate does not compile in this configuration","first_error":sys.argv[3]}},open(sys.argv[1],"w"),indent=1)
PY
      echo "VIOLATION property=C16 replay=$_rp  # num-bigint does not compile in configuration $cfg: $_why"
      [ $_rc -lt 1 ] && _rc=1
    else
      [ $_rc -lt 2 ] && _rc=2
    fi
  fi
done
# the complete C06 (text / radix conversion) space in the no_std build: the feature-conditional buffer
# estimates live in exactly that code, so every value/radix/input string of C06 is re-checked there
if [ -x "$(bindir nostd)/c06" ] && [ "$(cat "$ROOT/target/c16-build-nostd.rc" 2>/dev/null)" = 0 ]; then
  NBMC_AS=C16 NBMC_NO_PYREF=1 NBMC_PART=c06-nostd NBMC_CONFIG=nostd "$(bindir nostd)/c06" "$tier" | grep -v "^C16\[" ; _r=${PIPESTATUS[0]}
  [ $_r -gt $_rc ] && _rc=$_r
  _parts="$_parts c06-nostd"
else
  case " $_lib_broken " in *" nostd "*) : ;; *) [ $_rc -lt 2 ] && _rc=2 ;; esac
fi
# the documented-failure set (must panic / must be None / must succeed) in every profile and std/no_std
# configuration: a failure behaviour that differs between configurations is a result that differs
for cfg in $_built; do
  [ "$cfg" = stdmin ] && continue
  if [ -x "$(bindir $cfg)/c14" ]; then
    NBMC_AS=C16 NBMC_NO_PYREF=1 NBMC_PART=c14-$cfg NBMC_CONFIG=$cfg "$(bindir $cfg)/c14" quick | grep -v "^C16\[" ; _r=${PIPESTATUS[0]}
    [ $_r -gt $_rc ] && _rc=$_r
    _parts="$_parts c14-$cfg"
  else
    case " $_lib_broken " in *" $cfg "*) : ;; *) [ $_rc -lt 2 ] && _rc=2 ;; esac
  fi
done
# the operator-form matrix of C10 (every form x the extreme values of every primitive type) in the release and the
# debug-assertion profile: an overflow that only one profile turns into a panic is a result that differs
for cfg in $_built; do
  case "$cfg" in rel|relcheck|dev) ;; *) continue ;; esac
  if [ -x "$(bindir $cfg)/c10" ]; then
    NBMC_AS=C16 NBMC_NO_PYREF=1 NBMC_PART=c10-$cfg NBMC_CONFIG=$cfg "$(bindir $cfg)/c10" quick | grep -v "^C16\[" ; _r=${PIPESTATUS[0]}
    [ $_r -gt $_rc ] && _rc=$_r
    _parts="$_parts c10-$cfg"
  else
    case " $_lib_broken " in *" $cfg "*) : ;; *) [ $_rc -lt 2 ] && _rc=2 ;; esac
  fi
done
# byte-equality of the transcripts (first differing line is the replay)
_ref=""
_cmp_ok=true
for cfg in $_built; do
  if [ -z "$_ref" ]; then _ref=$cfg; continue; fi
  if ! cmp -s "$ROOT/target/transcripts16/$_ref.txt" "$ROOT/target/transcripts16/$cfg.txt"; then
    _cmp_ok=false
    _line=$(diff "$ROOT/target/transcripts16/$_ref.txt" "$ROOT/target/transcripts16/$cfg.txt" | head -3 | tr '\n' ' ' | cut -c1-400)
    _rp="replays/C16-transcript-$_ref-vs-$cfg.json"
    python3 - "$ROOT/$_rp" "$_ref" "$cfg" "$_line" "$tier" <<'PY'
import json,sys
json.dump({"property":"C16","tier":sys.argv[5],"config":"matrix","shell_cmd":"./check C16 "+sys.argv[5],
  "violation":{"key":"transcript:%s:%s"%(sys.argv[2],sys.argv[3]),"what":"transcripts differ between configurations","first_difference":sys.argv[4]}},open(sys.argv[1],"w"),indent=1)
PY
    echo "VIOLATION property=C16 replay=$_rp  # transcript of $cfg differs from $_ref: $_line"
    [ $_rc -lt 1 ] && _rc=1
  fi
done
_nlines=$(wc -l < "$ROOT/target/transcripts16/${_ref:-rel}.txt" 2>/dev/null || echo 0)
_wall=$(python3 -c "import time,sys; print('%.1f' % (time.time()-float(sys.argv[1])))" "$_t0")
python3 "$ROOT/tools/merge_evidence.py" C16 "$tier" "$_wall" $_parts "--extra=transcripts_byte_identical=$($_cmp_ok && echo true || echo false)" "--extra=transcript_lines=$_nlines" "--extra=transcript_configurations=\"$_built\"" || exit 2
exit $_rc
