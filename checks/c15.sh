# C15 orchestration (sourced by ./check): guard-page allocator in two placements + valgrind memcheck
_t0=$(date +%s.%N)
_rc=0
( build rel c15; echo $? > "$ROOT/target/c15-build-rel.rc" ) &
build guard c15; _b=$?
wait
[ $_b -eq 0 ] && [ "$(cat "$ROOT/target/c15-build-rel.rc")" = 0 ] || exit 2
for mode in end start; do
  NBMC_GUARD=$mode NBMC_NO_PYREF=1 NBMC_PART=guard-$mode NBMC_CONFIG=guard "$(bindir guard)/c15" "$tier"; _r=$?
  [ $_r -gt $_rc ] && _rc=$_r
done
# the same enumeration in the true dev profile (opt-level 0): the asm blocks are compiled into different
# surrounding code, results and borrowed operands are checked by the full oracle
if build dev c15; then
  NBMC_NO_PYREF=1 NBMC_PART=dev-profile NBMC_CONFIG=dev "$(bindir dev)/c15" "$tier"; _r=$?
  [ $_r -gt $_rc ] && _rc=$_r
else
  [ $_rc -lt 2 ] && _rc=2
fi
# valgrind memcheck on the plain release build, reduced space, worker processes traced
rm -f "$ROOT"/target/valgrind-c15-*.log
NBMC_VALGRIND=1 NBMC_WORKERS=8 NBMC_NO_PYREF=1 NBMC_PART=valgrind NBMC_CONFIG=rel \
  valgrind -q --trace-children=yes --error-exitcode=0 --log-file="$ROOT/target/valgrind-c15-%p.log" "$(bindir rel)/c15" "$tier"; _r=$?
[ $_r -gt $_rc ] && _rc=$_r
_vg_err=0
for f in "$ROOT"/target/valgrind-c15-*.log; do
  [ -s "$f" ] || continue
  if grep -qE "Invalid (read|write)|uninitialised|Invalid free|Mismatched" "$f"; then
    _vg_err=$((_vg_err+1))
    _rp="replays/C15-valgrind-$(basename "$f" .log).json"
    python3 - "$ROOT/$_rp" "$f" "$tier" <<'PY'
import json,sys
txt=open(sys.argv[2]).read()[:3000]
json.dump({"property":"C15","tier":sys.argv[3],"config":"rel","shell_cmd":"./check C15 "+sys.argv[3],
  "violation":{"key":"valgrind","what":"valgrind memcheck reported an invalid access / use of uninitialised memory","report":txt}},open(sys.argv[1],"w"),indent=1)
PY
    echo "VIOLATION property=C15 replay=$_rp  # valgrind memcheck: $(grep -m1 -E 'Invalid|uninitialised|Mismatched' "$f" | cut -c1-200)"
  fi
done
[ $_vg_err -gt 0 ] && [ $_rc -lt 1 ] && _rc=1
_wall=$(python3 -c "import time,sys; print('%.1f' % (time.time()-float(sys.argv[1])))" "$_t0")
python3 "$ROOT/tools/merge_evidence.py" C15 "$tier" "$_wall" guard-end guard-start dev-profile valgrind "--extra=valgrind_error_logs=$_vg_err" || exit 2
exit $_rc
