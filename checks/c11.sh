# C11 orchestration (sourced by ./check): the same check binary in the std and the no_std build
_t0=$(date +%s.%N)
( build rel c11; echo $? > "$ROOT/target/c11-build-rel.rc" ) &
build nostd c11; _b=$?
wait
[ "$(cat "$ROOT/target/c11-build-rel.rc")" = 0 ] || exit 2
[ $_b -eq 0 ] || { echo "MACHINERY: num-bigint does not build without std (see C16); C11 cannot compare configurations" >&2; exit 2; }
_rc=0
NBMC_PART=std NBMC_CONFIG=rel "$(bindir rel)/c11" "$tier"; _r=$?; [ $_r -gt $_rc ] && _rc=$_r
NBMC_PART=nostd NBMC_CONFIG=nostd "$(bindir nostd)/c11" "$tier"; _r=$?; [ $_r -gt $_rc ] && _rc=$_r
_wall=$(python3 -c "import time,sys; print('%.1f' % (time.time()-float(sys.argv[1])))" "$_t0")
python3 "$ROOT/tools/merge_evidence.py" C11 "$tier" "$_wall" std nostd || exit 2
exit $_rc
