# C14 orchestration (sourced by ./check): explicit failure set in both profiles + the value-property
# spaces re-run with the oracle reduced to the outcome class in both profiles.
_t0=$(date +%s.%N)
_rc=0
_parts=""
if [ "$tier" = "thorough" ]; then
  _f2="c01 c02 c03 c05 c06 c07 c08 c09 c10 c11 c12 c13 c17 c18 c19"
else
  _f2="c01 c02 c03 c05 c06 c07 c08 c09 c10 c11 c12 c13 c17 c18 c19"
fi
# the two largest thorough spaces (2*10^9 add/sub pairs, all 2^32 floats) stay at their quick size here
_tier_of() { case "$1" in c01|c08) echo quick ;; *) echo "$tier" ;; esac; }
( build rel c14; echo $? > "$ROOT/target/c14-build-rel.rc" ) &
build relcheck c14 $_f2; _b=$?
wait
[ $_b -eq 0 ] && [ "$(cat "$ROOT/target/c14-build-rel.rc")" = 0 ] || exit 2
for cfg in rel relcheck; do
  NBMC_NO_PYREF=1 NBMC_PART=c14-$cfg NBMC_CONFIG=$cfg "$(bindir $cfg)/c14" "$tier"; _r=$?
  [ $_r -gt $_rc ] && _rc=$_r
  _parts="$_parts c14-$cfg"
done
# F2: complement.  The release run of each space is what that property's own check does; here the
# debug-assertion profile is added, and the oracle is the outcome class only.
for b in $_f2; do
  NBMC_AS=C14 NBMC_ONLY_CLASS=1 NBMC_NO_PYREF=1 NBMC_PART=$b-relcheck NBMC_CONFIG=relcheck "$(bindir relcheck)/$b" "$(_tier_of $b)" | grep -v "^C14\[" ; _r=${PIPESTATUS[0]}
  [ $_r -gt $_rc ] && _rc=$_r
  _parts="$_parts $b-relcheck"
done
# the true dev profile (opt-level 0, debug assertions, overflow checks): the explicit failure set and the
# raw-pointer add/sub space always; every other space (at its quick size) in the thorough tier
if [ "$tier" = "thorough" ]; then _devbins="c14 c15 $_f2"; else _devbins="c14 c15"; fi
if build dev $_devbins; then
  for b in $_devbins; do
    if [ "$b" = c14 ]; then
      NBMC_NO_PYREF=1 NBMC_PART=c14-dev NBMC_CONFIG=dev "$(bindir dev)/c14" "$tier"; _r=$?
    else
      NBMC_AS=C14 NBMC_ONLY_CLASS=1 NBMC_NO_PYREF=1 NBMC_PART=$b-dev NBMC_CONFIG=dev "$(bindir dev)/$b" quick | grep -v "^C14\[" ; _r=${PIPESTATUS[0]}
    fi
    [ $_r -gt $_rc ] && _rc=$_r
    _parts="$_parts $b-dev"
  done
else
  [ $_rc -lt 2 ] && _rc=2
fi
_wall=$(python3 -c "import time,sys; print('%.1f' % (time.time()-float(sys.argv[1])))" "$_t0")
python3 "$ROOT/tools/merge_evidence.py" C14 "$tier" "$_wall" $_parts || exit 2
exit $_rc
