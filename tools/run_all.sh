#!/bin/bash
# Runs every claimed check in the given tier on /repo's current tree and prints one summary line each.
tier="${1:-quick}"
cd "$(dirname "$0")/.."
rc=0
for id in $(python3 -c "import json; print(' '.join(c['property_id'] for c in json.load(open('MANIFEST.json'))['checks']))"); do
  t0=$(date +%s)
  out=$(./check "$id" "$tier" 2>&1); r=$?
  t1=$(date +%s)
  echo "$id $tier rc=$r $((t1-t0))s :: $(echo "$out" | grep -E "^$id|merged" | tail -1 | cut -c1-200)"
  echo "$out" | grep -E "^(VIOLATION|KNOWN-FINDING|MACHINERY)" | head -5
  [ $r -gt $rc ] && rc=$r
done
exit $rc
