#!/usr/bin/env python3
"""Regenerates MANIFEST.json from the table below (one entry per claimed property)."""
import json, os, subprocess
ROOT = os.path.dirname(os.path.dirname(os.path.abspath(__file__)))

CHECKS = {}
def chk(pid, engine, technique, text, note, design_ref):
    CHECKS[pid] = dict(engine=engine, technique=technique, text=text, note=note, design_ref=design_ref)

PROD = "bounded exhaustive enumeration of an input product space on the real code against a reference model (explicit-state, no sampling)"
HIST = "explicit-state search (stateright) over operation histories executed on the real objects, state-by-state comparison with a reference model"

chk("C01", "E-prod", PROD,
    "Every ordered operand pair of Dense(S5,4)^2, Runs(S5,k,L)^2 and the block-boundary length family is run through every add/sub form of BigUint and BigInt (4 sign pairs), and every big operand x scalar extreme through the u32/u64/u128/i64/i128 scalar forms on either side, and compared digit-for-digit with refint; a<b must panic / checked_sub must be None. Exhaustive inside the stated alphabet and length bounds, which are built from the code's branch points (5-digit asm block, carry into the longer operand's tail).",
    "Digits outside the 5-letter alphabet only via the control-flow argument in DESIGN.md 1; refint trusted, cross-checked against Python int.",
    "DESIGN.md 4/C01")
chk("C02", "E-prod", PROD,
    "Every (lx,ly) length pair up to the bound x 12x12 digit patterns (defined relative to the Karatsuba/Toom-3 split points), the Toom-3 band of lengths, dense small operands, low/inner zero digits, an LCG-dense family, sign pairs and unsigned and signed scalar forms; products compared digit-for-digit with the schoolbook product of refint. Probe counters show which regimes (long / half-Karatsuba / Karatsuba with each middle-term sign / Toom-3) were reached.",
    "Operands above 3 digits are pattern-structured, not dense; refint trusted, cross-checked against Python.",
    "DESIGN.md 4/C02")
chk("C03", "E-prod", PROD,
    "Every dividend/divisor pair of Dense(S8,4)xDense(S8,3), every normalisation shift, run-structured long operands and constructed trial-quotient boundary cases q*v+r through every division API (truncating, flooring, Euclidean, ceiling, checked; unsigned and signed scalar divisors/dividends) of BigUint and BigInt with all four sign pairs; compared with refint's shift-subtract division and the defining equation; zero divisors must panic / give None.",
    "8-letter digit alphabet; refint division trusted (self-checked by a=q*b+r on every pair, cross-checked against Python).",
    "DESIGN.md 4/C03")
chk("C04", "E-hist + E-prod", HIST,
    "stateright BFS over histories of in-place public operations (+= -= *= /= %= &= |= ^= <<= >>= set_bit set_zero set_one clone_from assign_from_slice neg not) on one live BigInt / BigUint from every initial construction (redundant zero words, inconsistent sign/magnitude, slack capacity); the state key is the complete private representation + model value + depth, every state is observed through Eq/Ord/Hash/exports against a freshly built canonical object; plus arbitrary/quickcheck generators and constructor families.",
    "Depth-bounded (3 quick / 5 thorough) with a fixed operand pool; states over 20 digits are not expanded; DefaultHasher stands for Hash. A violation replays as the recorded history (init + action list) without the explorer.",
    "DESIGN.md 4/C04")
chk("C05", "E-prod", PROD,
    "Every (modulus, base, exponent) triple of the stated families (odd/even moduli of 1..3+ digits with small / all-ones top digit, bases shorter/equal/longer than the modulus, exponents with zero 4-bit windows and zero low digits) through BigUint::modpow and the four sign pairs of BigInt::modpow against refint square-and-multiply; modinv over complete squares decided by refint gcd and verified by b*x = 1 (mod m) and the interval; zero modulus / negative exponent must panic.",
    "Finite families built around the branch points; refint trusted, cross-checked against Python pow/gcd.",
    "DESIGN.md 4/C05")
chk("C06", "E-prod", PROD,
    "Output: every value of the stated families x every radix 2..=36 (text) and 2..=256 (digit vectors) must be canonical syntax and evaluate by Horner (refint) to the value and parse back; 276 literal format specs (52 of them with a precision, which integer formatting ignores) x the 5 formatter traits the property names (Debug is run and counted, not required) against a padding reference validated against i128. Input: every string up to length 5 over a 12-symbol alphabet (and byte strings incl. invalid UTF-8) x 6 radices x both types x 3 entry points against a recogniser of the documented grammar; every digit slice over {0,1,r-2,r-1,r,255} for every radix.",
    "Values are structured families (dense small, r^k+-1 at every chunk boundary, patterns around the 64-digit threshold), not all integers.",
    "DESIGN.md 4/C06")
chk("C07", "E-prod", PROD,
    "Every ordered pair of signed values of +-Dense(S5,3) (and 4x2, run-structured up to 8 digits) through & | ^ in six forms each for BigInt (nine sign combinations) and BigUint, ! in two forms; every value x shift amount x each of the 12 primitive shift types x five forms, negative amounts must panic; every value x bit index for bit / set_bit and the whole-value bit queries; all against refint two's complement by explicit sign extension.",
    "5-letter / 3-letter digit alphabets; shift amounts that would exhaust memory are out of scope per the property.",
    "DESIGN.md 4/C07")
chk("C08", "E-prod", PROD,
    "Integers: every value s*2^k+d (k<=130, |d|<=3) x 12 primitive types through to_T / TryFrom<&Big> / TryFrom<Big> (error must carry the original) and back through From / FromPrimitive / ToBigInt / ToBigUint / TryFrom, plus every 8/16-bit value. Floats: a (mantissa pattern, guard, sticky placement, shift) family for to_f64/to_f32 compared bit-for-bit with refint round-half-even; from_f32 over 2^26 (quick) / all 2^32 (thorough) bit patterns, from_f64 over every exponent x 96 mantissas x sign.",
    "big->float inputs are the structured family; from_f64 is not enumerated over all 2^64 patterns.",
    "DESIGN.md 4/C08")
chk("C09", "E-prod + E-hist", HIST,
    "Export of every value of the stated families through every byte/u32/u64 export; import of every byte string over {00,01,7f,80,ff} and every u32 slice over {0,1,2^31,2^32-1} up to length 7 (9 thorough) through every constructor; complete tree walk of every call sequence over {next,next_back,nth(0..2)} up to length 8 (10 thorough) on the real iter_u32_digits / iter_u64_digits of 16 values against a VecDeque model, with len/size_hint after each call and last/count/rev/collect on replayed copies.",
    "Iterator histories are bounded in length (longer than the digit lists, so exhaustion is inside the bound).",
    "DESIGN.md 4/C09")
chk("C10", "E-prod", PROD,
    "A macro instantiates every provided operator form ({BigUint,BigInt} x {+,-,*,/,%,&,|,^,<<,>>,pow} x value/reference x scalar type on either side x compound assignment, scalar %= big, checked_*, Sum/Product) and compares each, on the full product of pool operands x scalar extremes, with the reference-by-reference big-by-big operation on the converted operands (same value or both panic), which is itself tied to refint.",
    "Operands from the pool and scalar-extreme alphabets; the form matrix is whatever the macro can name (counted in evidence).",
    "DESIGN.md 4/C10")
chk("C11", "E-prod x configurations", PROD + "; run in the std and no_std builds",
    "Every x of the stated families (dense small, u64 edge, perfect powers r^n and r^n+-1, 2^k+-1 for every k up to 2300) x degree set through sqrt/cbrt/nth_root/Roots for BigUint and BigInt (odd roots of negatives; even roots and n=0 must panic), verified by r^n <= x < (r+1)^n in refint; the whole space is executed in the std build (floating-point guesses) and the no_std build (power-of-two guesses).",
    "x from structured families; both configurations must satisfy the oracle (hence agree).",
    "DESIGN.md 4/C11")
chk("C12", "E-prod", PROD,
    "48 bases x every exponent 0..=600 (every trailing-zero / set-bit pattern up to 10 bits), every exponent < 4096 for bases 0,+-1,+-2, through every exponent type (u8..u128, usize, BigUint; value and reference forms) and the inherent pow(u32), against a running product in refint; BigUint exponents at the u64/u128 edges with bases 0 and +-1.",
    "Fixed base set; exponents bounded by 600 (4096 for tiny bases).",
    "DESIGN.md 4/C12")
chk("C13", "E-prod", PROD,
    "All (a,b) in [-80,80]^2, a structured family of large values with common powers of two spanning several digits x all sign pairs, and Dense(S5,2)^2 through gcd, lcm, gcd_lcm, extended_gcd, extended_gcd_lcm, is_multiple_of, next/prev_multiple_of, is_even, is_odd, inc, dec against refint Euclid and the defining identities.",
    "Structured operand families; refint gcd trusted, cross-checked against Python math.gcd.",
    "DESIGN.md 4/C13")
chk("C14", "E-prod x profiles", PROD + "; release and debug-assertion/overflow-check profiles, worker subprocesses with fault and hang detection",
    "The documented-failure set is enumerated explicitly (must panic / must be None) and the complement (the quick spaces of the value properties) is re-run with the oracle reduced to the outcome class in the release profile, in a profile with debug assertions and overflow checks (all complement spaces) and in the true dev profile (failure set + add/sub space), so every internal debug_assert and arithmetic overflow becomes an observable panic; process faults and non-termination are mapped to the case in flight.",
    "Memory-exhausting operations are out of scope per the property; relcheck (opt-level 1 + debug assertions + overflow checks) carries the large complement spaces; the true dev profile runs the C14/C15 spaces.",
    "DESIGN.md 4/C14")
chk("C15", "E-prod under memory monitors", PROD + " executed under a guard-page allocator (and valgrind memcheck on a reduced space)",
    "Every (len_a, len_b) in [0,17]^2 x digit contents x operand provenance through the add/sub forms, multiplication/division/radix callers of the asm loops, to_str_radix over all radices, gen_biguint for every bit size 0..=320, with every heap block ending (pass 1) or starting (pass 2) exactly at a PROT_NONE page, a dev-profile pass and a valgrind memcheck pass, saved-copy comparison of borrowed operands and byte-wise ASCII validation of every produced String.",
    "The asm! operand contract (an `in` register is decremented) is a compile-time obligation no execution-based monitor can see; not claimed.",
    "DESIGN.md 4/C15")
chk("C16", "E-prod over the configuration lattice", "exhaustive enumeration of the feature-subset lattice (build) and transcript equality across configurations",
    "All 16 subsets of {rand,serde,quickcheck,arbitrary} with std and the 4 subsets of {rand,serde} without std are built from the working tree; one deterministic transcript (radix conversions, roots, and a cross-section of all other operations) is produced in {std,no_std} x {release,debug-assertions} + all-features (+ the dev profile in thorough) and must be byte-identical and agree with refint; the complete text/radix space of C06 is additionally run in the no_std build, and the documented-failure set of C14 (must panic / must be None) in {std,no_std} x {release,debug-assertions}, so a failure behaviour that differs between configurations is reported; C10's operator-form matrix (every form x the extreme values of every primitive type) runs in the release and the debug-assertion profile.",
    "Only x86_64-linux is present: 32-bit digit code and non-x86 fallbacks cannot be built here.",
    "DESIGN.md 4/C16")
chk("C17", "E-prod", PROD,
    "A recording Serializer checks the token stream of every value of +-Dense(S32,3) (sequence of base-2^32 digits, declared length = emitted length, no trailing zero, BigInt as (i8 sign, seq)); a token-replay Deserializer feeds every u32 sequence up to length 7 over {0,1,2^32-1} x 5 size hints x all 256 i8 sign tokens (incl. inconsistent and invalid ones); serde_json round trip as a second real format.",
    "Token sequences bounded in length; two formats (recorder, serde_json).",
    "DESIGN.md 4/C17")
chk("C18", "E-hist over RNG streams", "exhaustive enumeration of RNG output streams (words from a 5-letter alphabet up to a length bound) fed to the real generators, result and words-consumed compared with the specification model",
    "A StreamRng replays an explicit word list, as a 32-bit-word generator and as a 64-bit-native generator (whole 64-bit units per request); every stream up to the length bound over {0,1,2^31,2^32-1,0x5555aaaa} is fed to gen_biguint/gen_bigint for every bit size 0..=130, gen_biguint_below / ranges / Uniform / RandomBits over the bound families; result and number of words consumed must equal the property's own model (first ceil(n/32) words, top word shifted down; first candidate below the bound); uniformity by exhaustive preimage counting for n <= 12.",
    "Streams bounded in length (then zeros, so rejection loops terminate); uniformity is exact counting for small widths, not statistics.",
    "DESIGN.md 4/C18")
chk("C19", "E-prod", PROD,
    "Every value of the pool and +-Dense(S5,2), also as 'value whose predecessor had a larger capacity', through Neg, abs, signum, is_positive/negative, sign, magnitude, abs_sub (all ordered pairs), into_parts/from_biguint over all 3 x |Dense| (Sign, magnitude) pairs, to_biguint/to_bigint, zero/ZERO/default/one/is_zero/is_one/set_zero/set_one, Sign negation and multiplication tables, against refint definitions.",
    "Pool and 5-letter alphabet values.",
    "DESIGN.md 4/C19")
chk("C20", "E-prod", "exhaustive enumeration of the property's own finite quantifier (operand lengths) with a deterministic work counter in the real code",
    "The MAC_WORK hook (sum of row lengths passed to the multiply-accumulate row routine) is read around one multiplication of fixed dense operands for every n in {256,...,16384} and every n in 33..=4096 (doubling ratio W(2n)/W(n) <= 3.5), W(4096) < 4096^2/4, and the unbalanced bank W(lx,ly) <= lx*ly; the same bounds for 17 multiplication forms (value/reference, *=, checked_mul, BigInt, squares, Product, operands with spare buffer capacity); products are also checked against refint.",
    "The counter counts digit multiplications in the row routine only (the property's definition of cost); thresholds carry >= 10% margin over the measured values.",
    "DESIGN.md 4/C20")

NOT_YET = {}

def main():
    props = [json.loads(l) for l in open(os.path.join(ROOT, "properties.jsonl"))]
    try:
        hook_commits = subprocess.check_output(["git", "-C", "/repo", "log", "--format=%H %s"], text=True).splitlines()
        hook_commits = [l.split()[0] for l in hook_commits if "verif hook" in l]
    except Exception:
        hook_commits = []
    checks = []
    na = []
    for p in props:
        pid = p["id"]
        has_bin = os.path.exists(os.path.join(ROOT, "harness/nbmc/src/bin/%s.rs" % pid.lower()))
        if pid in CHECKS and has_bin:
            c = CHECKS[pid]
            checks.append({
                "property_id": pid,
                "quick_cmd": "./check %s quick" % pid,
                "thorough_cmd": "./check %s thorough" % pid,
                "evidence_file": "/verif/evidence/%s.json" % pid,
                "replay_cmd_template": "./check replay {path}",
                "engine": c["engine"],
                "technique": c["technique"],
                "level_claimed": {"category": "model_checking", "text": c["text"], "design_ref": c["design_ref"]},
                "level_note": c["note"],
            })
        else:
            na.append({"property_id": pid, "reason": NOT_YET.get(pid, "check not built yet in this round (planned in DESIGN.md section 4); not claimed until its machinery exists")})
    m = {
        "version": 1,
        "setup_cmd": "./check build",
        "hooks": {
            "guard": "num_bigint_verif",
            "enable": "RUSTFLAGS=\"--cfg num_bigint_verif\" (set by ./check for every harness build; path dependency on /repo)",
            "baseline_off_cmd": "cd /repo && cargo test --workspace --no-fail-fast --offline",
            "source_commits": hook_commits,
            "add_only": True,
        },
        "engines": [
            {"name": "E-prod", "path": "harness/nbmc-core/src/runner.rs", "serves_properties": sorted(k for k, v in CHECKS.items() if "E-prod" in v["engine"]), "kind_free_text": "deterministic odometer over alphabet products, sharded over 16 worker processes, real code vs refint reference model"},
            {"name": "E-hist", "path": "harness/nbmc/src/bin/c04.rs", "serves_properties": sorted(k for k, v in CHECKS.items() if "E-hist" in v["engine"]), "kind_free_text": "explicit-state search over operation histories (stateright / complete tree walk) calling the real methods"},
        ],
        "checks": checks,
        "not_applicable": na,
        "notes": "All checks are bounded exhaustive explorations (model checking of a sequential library: every input shape / operation history up to a bound against a reference model). Exit 2 = machinery failure. See DESIGN.md.",
    }
    json.dump(m, open(os.path.join(ROOT, "MANIFEST.json"), "w"), indent=1)
    print("MANIFEST.json: %d checks, %d not_applicable" % (len(checks), len(na)))

if __name__ == "__main__":
    main()
