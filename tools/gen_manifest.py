#!/usr/bin/env python3
"""Regenerates MANIFEST.json from the table below (one entry per claimed property)."""
import json, os, subprocess
ROOT = os.path.dirname(os.path.dirname(os.path.abspath(__file__)))

CHECKS = {}
def chk(pid, engine, technique, text, note, design_ref):
    CHECKS[pid] = dict(engine=engine, technique=technique, text=text, note=note, design_ref=design_ref)

PROD = "bounded exhaustive enumeration of an input product space on the real code against a reference model (explicit-state, no sampling)"
HIST = "explicit-state search (stateright) over operation histories executed on the real objects, state-by-state comparison with a reference model"

chk("C01", "E-prod", PROD,
    "Every ordered operand pair of Dense(S5,4)^2, Runs(S5,k,L)^2 and the block-boundary length family is run through every add/sub form of BigUint and BigInt (4 sign pairs) and compared digit-for-digit with refint; a<b must panic / checked_sub must be None. Exhaustive inside the stated alphabet and length bounds, which are built from the code's branch points (5-digit asm block, carry into the longer operand's tail).",
    "Digits outside the 5-letter alphabet only via the control-flow argument in DESIGN.md 1; refint trusted, cross-checked against Python int.",
    "DESIGN.md 4/C01")

NOT_YET = {}

def main():
    props = [json.loads(l) for l in open(os.path.join(ROOT, "properties.jsonl"))]
    try:
        hook_commits = subprocess.check_output(["git", "-C", "/repo", "log", "--format=%H %s"], text=True).splitlines()
        hook_commits = [l.split()[0] for l in hook_commits if "verif hook" in l]
    except Exception:
        hook_commits = []
    checks = []
    na = []
    for p in props:
        pid = p["id"]
        if pid in CHECKS:
            c = CHECKS[pid]
            checks.append({
                "property_id": pid,
                "quick_cmd": "./check %s quick" % pid,
                "thorough_cmd": "./check %s thorough" % pid,
                "evidence_file": "/verif/evidence/%s.json" % pid,
                "replay_cmd_template": "./check replay {path}",
                "engine": c["engine"],
                "technique": c["technique"],
                "level_claimed": {"category": "model_checking", "text": c["text"], "design_ref": c["design_ref"]},
                "level_note": c["note"],
            })
        else:
            na.append({"property_id": pid, "reason": NOT_YET.get(pid, "check not built yet in this round (planned in DESIGN.md section 4); not claimed until its machinery exists")})
    m = {
        "version": 1,
        "setup_cmd": "./check build",
        "hooks": {
            "guard": "num_bigint_verif",
            "enable": "RUSTFLAGS=\"--cfg num_bigint_verif\" (set by ./check for every harness build; path dependency on /repo)",
            "baseline_off_cmd": "cd /repo && cargo test --workspace --no-fail-fast --offline",
            "source_commits": hook_commits,
            "add_only": True,
        },
        "engines": [
            {"name": "E-prod", "path": "harness/nbmc-core/src/runner.rs", "serves_properties": sorted(k for k, v in CHECKS.items() if v["engine"].startswith("E-prod")), "kind_free_text": "deterministic odometer over alphabet products, sharded over 16 worker processes, real code vs refint reference model"},
            {"name": "E-hist", "path": "harness/nbmc/src/hist.rs", "serves_properties": sorted(k for k, v in CHECKS.items() if "E-hist" in v["engine"]), "kind_free_text": "explicit-state search over operation histories (stateright / complete tree walk) calling the real methods"},
        ],
        "checks": checks,
        "not_applicable": na,
        "notes": "All checks are bounded exhaustive explorations (model checking of a sequential library: every input shape / operation history up to a bound against a reference model). Exit 2 = machinery failure. See DESIGN.md.",
    }
    json.dump(m, open(os.path.join(ROOT, "MANIFEST.json"), "w"), indent=1)
    print("MANIFEST.json: %d checks, %d not_applicable" % (len(checks), len(na)))

if __name__ == "__main__":
    main()
