#!/usr/bin/env python3
"""Merge per-configuration evidence parts (target/evidence-parts/<id>.<part>.json) into
evidence/<id>.json.  Usage: merge_evidence.py <id> <tier> <wall_s> <part>... [--extra key=json]"""
import json, os, sys
ROOT = os.path.dirname(os.path.dirname(os.path.abspath(__file__)))
pid, tier, wall = sys.argv[1], sys.argv[2], float(sys.argv[3])
parts = [a for a in sys.argv[4:] if not a.startswith("--extra=")]
extras = [a[len("--extra="):] for a in sys.argv[4:] if a.startswith("--extra=")]
cov = {"states": 0, "transitions": 0, "traces_validated_against_impl": 0, "evaluations": 0, "distinct_nontrivial": 0,
       "samples": [], "exhaustive": True, "configurations": {}}
assumptions, violations, seed = [], 0, 0
for p in parts:
    path = os.path.join(ROOT, "target", "evidence-parts", "%s.%s.json" % (pid, p))
    if not os.path.exists(path):
        cov["exhaustive"] = False
        cov["configurations"][p] = {"missing": True}
        continue
    e = json.load(open(path))
    c = e["coverage"]
    for k in ("states", "transitions", "traces_validated_against_impl", "evaluations", "distinct_nontrivial"):
        cov[k] += c.get(k, 0)
    cov["samples"] += ["[%s] %s" % (p, s) for s in c.get("samples", [])[:8]]
    cov["exhaustive"] = cov["exhaustive"] and c.get("exhaustive", False)
    if "rule" not in cov:
        # the first part is the property's own binary / tool; later parts keep their rule per configuration
        cov["rule"] = c.get("rule", "")
        cov["engine"] = c.get("engine", "")
        cov["bounds"] = c.get("bounds", "")
    cov["configurations"][p] = {k: v for k, v in c.items() if k not in ("samples",)}
    cov["configurations"][p]["binary"] = e.get("binary", pid)
    for a in e.get("assumptions", []):
        if a not in assumptions:
            assumptions.append(a)
    violations += e.get("violations", 0)
    seed = e.get("seed", 0)
for x in extras:
    k, v = x.split("=", 1)
    cov[k] = json.loads(v)
if len(parts) > 1:
    cov["rule"] = cov.get("rule", "") + " || merged from %d parts (%s); each part's own rule, bounds and counts are under 'configurations'" % (len(parts), ", ".join(parts))
if not cov["samples"]:
    cov["samples"] = ["(none)"]
ev = {"property_id": pid, "tier": tier, "seed": seed, "level": "model_checking", "coverage": cov,
      "assumptions": assumptions, "wall_s": wall, "violations": violations}
os.makedirs(os.path.join(ROOT, "evidence"), exist_ok=True)
json.dump(ev, open(os.path.join(ROOT, "evidence", "%s.json" % pid), "w"), indent=1)
print("%s %s: merged %d configuration parts: states=%d transitions=%d violations=%d exhaustive=%s" % (pid, tier, len(parts), cov["states"], cov["transitions"], violations, cov["exhaustive"]))
