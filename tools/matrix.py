#!/usr/bin/env python3
"""Detection matrix: every seeded change x every claimed quick check, on scratch copies.

  matrix.py <scratch-root> <results.json> [<seeded id> ...]      (default: every /verif/seeded/*/patch.diff)

For each change: apply to a scratch clone of /repo, run `./check <P> quick` for every claimed property P
in a scratch copy of /verif, record the exit code and the first VIOLATION line, revert.  The repository's
tests and the demonstrations are not re-run here (tools/campaign.py did that when the change was accepted).
Nothing in /repo or in /verif's build output is touched."""
import json, os, shutil, subprocess, sys, time, glob

def sh(cmd, cwd=None, env=None, timeout=None):
    t0 = time.time()
    try:
        p = subprocess.run(cmd, shell=True, cwd=cwd, env=env, stdout=subprocess.PIPE, stderr=subprocess.STDOUT, text=True, timeout=timeout)
        return p.returncode, p.stdout, time.time() - t0
    except subprocess.TimeoutExpired as e:
        return 124, (e.stdout or "") if isinstance(e.stdout, str) else "", time.time() - t0

def main():
    root, results_path = sys.argv[1], sys.argv[2]
    ids = sys.argv[3:] or sorted(os.path.basename(os.path.dirname(p)) for p in glob.glob("/verif/seeded/*/patch.diff"))
    repo, verif = os.path.join(root, "repo"), os.path.join(root, "verif")
    if not os.path.exists(repo):
        os.makedirs(root, exist_ok=True)
        subprocess.check_call(["git", "clone", "-q", "/repo", repo])
        shutil.copy("/repo/Cargo.lock", os.path.join(repo, "Cargo.lock"))
    if not os.path.exists(verif):
        subprocess.check_call("mkdir -p %s && cd /verif && git ls-files -z | xargs -0 -I{} cp --parents {} %s/" % (verif, verif), shell=True)
        ct = os.path.join(verif, "harness/nbmc/Cargo.toml")
        s = open(ct).read().replace('path = "/repo"', 'path = "%s"' % repo)
        open(ct, "w").write(s)
    env = dict(os.environ)
    env["NBMC_REPO"] = repo
    env["CARGO_NET_OFFLINE"] = "true"
    props = [c["property_id"] for c in json.load(open("/verif/MANIFEST.json"))["checks"]]
    results = json.load(open(results_path)) if os.path.exists(results_path) else {}
    for sid in ids:
        if sid in results:
            continue
        patch = "/verif/seeded/%s/patch.diff" % sid
        sh("git checkout -q -- . && git clean -fdq src tests", cwd=repo)
        rc, out, _ = sh("git apply %s" % patch, cwd=repo)
        if rc != 0:
            results[sid] = {"error": "patch does not apply"}
            continue
        row = {}
        for p in props:
            rc, out, dt = sh("./check %s quick" % p, cwd=verif, env=env, timeout=3600)
            viol = [l for l in out.splitlines() if l.startswith("VIOLATION")]
            row[p] = {"rc": rc, "wall_s": round(dt, 1), "first": viol[0][:200] if viol else ""}
        results[sid] = row
        json.dump(results, open(results_path, "w"), indent=1)
        print("%s: detected by %s" % (sid, " ".join(p for p in props if row[p]["rc"] == 1)), flush=True)
    sh("git checkout -q -- .", cwd=repo)

if __name__ == "__main__":
    main()
