#!/usr/bin/env python3
"""Mutation campaign on scratch copies (never touches /repo or /verif's build output).

  campaign.py <scratch-root> <results.json> <patch.diff>:<property>[:<extra props,comma>] ...

Creates <scratch-root>/repo (git clone of /repo's HEAD) and <scratch-root>/verif (copy of /verif's
tracked files with the path dependency rewritten), then for every patch: apply, run the
repository's own test suite (hooks off), run `./check <property> quick` (and thorough if quick is
silent), revert.  Results are appended to results.json after every mutant."""
import json, os, shutil, subprocess, sys, time

def sh(cmd, cwd=None, env=None, timeout=None):
    t0 = time.time()
    try:
        p = subprocess.run(cmd, shell=True, cwd=cwd, env=env, stdout=subprocess.PIPE, stderr=subprocess.STDOUT, text=True, timeout=timeout)
        return p.returncode, p.stdout, time.time() - t0
    except subprocess.TimeoutExpired as e:
        return 124, (e.stdout or "") if isinstance(e.stdout, str) else "", time.time() - t0

def main():
    root, results_path = sys.argv[1], sys.argv[2]
    specs = sys.argv[3:]
    repo, verif = os.path.join(root, "repo"), os.path.join(root, "verif")
    if not os.path.exists(repo):
        os.makedirs(root, exist_ok=True)
        subprocess.check_call(["git", "clone", "-q", "/repo", repo])
        shutil.copy("/repo/Cargo.lock", os.path.join(repo, "Cargo.lock"))
    if not os.path.exists(verif):
        subprocess.check_call("mkdir -p %s && cd /verif && git ls-files -z | xargs -0 -I{} cp --parents {} %s/" % (verif, verif), shell=True)
        ct = os.path.join(verif, "harness/nbmc/Cargo.toml")
        s = open(ct).read().replace('path = "/repo"', 'path = "%s"' % repo)
        open(ct, "w").write(s)
    env = dict(os.environ)
    env["NBMC_REPO"] = repo
    env["CARGO_NET_OFFLINE"] = "true"
    results = []
    if os.path.exists(results_path):
        results = json.load(open(results_path))
    done = {r["patch"] for r in results}
    for spec in specs:
        parts = spec.split(":")
        patch, prop = parts[0], parts[1]
        extra = parts[2].split(",") if len(parts) > 2 and parts[2] else []
        if patch in done:
            continue
        r = {"patch": patch, "property": prop}
        sh("git checkout -q -- . && git clean -fdq src tests", cwd=repo)
        rc, out, _ = sh("git apply %s" % patch, cwd=repo)
        if rc != 0:
            r["error"] = "patch does not apply: " + out[-300:]
            results.append(r)
            json.dump(results, open(results_path, "w"), indent=1)
            continue
        rc, out, dt = sh("cargo test --offline 2>&1 | grep -E '^test result|FAILED|panicked|error(\\[|:)' | head -20", cwd=repo, env=env, timeout=1200)
        lines = out.strip().splitlines()
        r["repo_tests_pass"] = bool(lines) and all(l.startswith("test result: ok") for l in lines)
        r["repo_tests_s"] = round(dt, 1)
        if not r["repo_tests_pass"]:
            r["repo_tests_output"] = lines[:6]
        demo = os.path.join(os.path.dirname(patch), "demo.rs")
        if os.path.exists(demo):
            shutil.copy(demo, os.path.join(repo, "tests", "seeded_demo.rs"))
            ff = os.path.join(os.path.dirname(patch), "demo_flags.txt")
            flags = open(ff).read().strip() if os.path.exists(ff) else ""
            rc, out, dt = sh("cargo test --offline " + flags + " --test seeded_demo 2>&1 | grep -E '^test result|error(\\[|:)' | head -5", cwd=repo, env=env, timeout=1200)
            r["demo_fails_with_change"] = ("FAILED" in out) or ("failed" in out and "0 failed" not in out)
            sh("git stash -q", cwd=repo)
            rc, out, dt = sh("cargo test --offline " + flags + " --test seeded_demo 2>&1 | grep -E '^test result|error(\\[|:)' | head -5", cwd=repo, env=env, timeout=1200)
            r["demo_passes_without_change"] = out.strip().startswith("test result: ok")
            sh("git stash pop -q", cwd=repo)
            os.remove(os.path.join(repo, "tests", "seeded_demo.rs"))
        demosh = os.path.join(os.path.dirname(patch), "demo.sh")
        if os.path.exists(demosh) and not os.path.exists(demo):
            rc, out, dt = sh("bash %s %s" % (demosh, repo), cwd=repo, env=env, timeout=1800)
            r["demo_fails_with_change"] = rc != 0
            sh("git apply -R %s" % patch, cwd=repo)
            rc, out, dt = sh("bash %s %s" % (demosh, repo), cwd=repo, env=env, timeout=1800)
            r["demo_passes_without_change"] = rc == 0
            sh("git apply %s" % patch, cwd=repo)
        for tier in (["quick"] if os.environ.get("CAMPAIGN_NO_THOROUGH") else ["quick", "thorough"]):
            rc, out, dt = sh("./check %s %s" % (prop, tier), cwd=verif, env=env, timeout=3600)
            viol = [l for l in out.splitlines() if l.startswith("VIOLATION")]
            r[tier] = {"rc": rc, "violations_printed": len(viol), "first": (viol[0][:300] if viol else ""), "wall_s": round(dt, 1)}
            if rc == 2:
                r[tier]["tail"] = out.strip().splitlines()[-4:]
            if rc == 1:
                break
        r["detected_by"] = "quick" if r["quick"]["rc"] == 1 else ("thorough" if r.get("thorough", {}).get("rc") == 1 else None)
        # other properties' quick checks (who else notices?)
        r["also"] = {}
        for p2 in extra:
            rc, out, dt = sh("./check %s quick" % p2, cwd=verif, env=env, timeout=3600)
            r["also"][p2] = {"rc": rc, "wall_s": round(dt, 1)}
        results.append(r)
        json.dump(results, open(results_path, "w"), indent=1)
        print("%s [%s]: tests_pass=%s detected_by=%s" % (os.path.basename(patch), prop, r["repo_tests_pass"], r["detected_by"]), flush=True)
    sh("git checkout -q -- .", cwd=repo)

if __name__ == "__main__":
    main()
