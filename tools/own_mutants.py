#!/usr/bin/env python3
"""Catalogue of hand-written property-breaking changes (DESIGN.md 4, 'Mutants').  Each entry is a
single textual replacement in /repo.  `make_patches()` turns them into unified diffs under
/verif/mutants/own/<id>.diff (without leaving /repo modified)."""
import os, subprocess, sys, json

M = []
def mut(mid, prop, path, old, new, desc):
    M.append(dict(id=mid, prop=prop, path=path, old=old, new=new, desc=desc))

A = "src/biguint/addition.rs"
S = "src/biguint/subtraction.rs"
MU = "src/biguint/multiplication.rs"
D = "src/biguint/division.rs"
# ---- C01
mut("c01-asm-drops-carry", "C01", A, "        (c > 0, idx)\n    }\n);\n\n#[cfg(any(target_arch = \"x86\", target_arch = \"x86_64\"))]\ncfg_32!(\n    /// TODO: The same trick as above can be applied to 32 bit targets\n    unsafe fn schoolbook_add_assign_x86_64",
    "        (false, idx)\n    }\n);\n\n#[cfg(any(target_arch = \"x86\", target_arch = \"x86_64\"))]\ncfg_32!(\n    /// TODO: The same trick as above can be applied to 32 bit targets\n    unsafe fn schoolbook_add_assign_x86_64", "asm add loop drops the carry leaving the 5-digit block")
mut("c01-propagate-stops-early", "C01", A, "            carry = adc(carry, *a, 0, a);\n            if carry == 0 {\n                break;\n            }", "            carry = adc(carry, *a, 0, a);\n            break;", "carry propagation into the longer operand's tail stops after one digit")
mut("c01-addassign-forgets-push", "C01", A, "            self.data.extend_from_slice(&other.data[self_len..]);\n            __add2(&mut self.data[self_len..], &[lo_carry])", "            self.data.extend_from_slice(&other.data[self_len..]);\n            __add2(&mut self.data[self_len..], &[lo_carry]);\n            0", "AddAssign forgets the final carry when self was the shorter operand")
mut("c01-sub2-ignores-bhi", "C01", S, "        borrow == 0 && b_hi.iter().all(|x| *x == 0),\n        \"Cannot subtract b from a because b is larger than a.\"\n    );\n}\n\n// Only for the Sub impl.", "        borrow == 0,\n        \"Cannot subtract b from a because b is larger than a.\"\n    );\n}\n\n// Only for the Sub impl.", "sub2 underflow assertion drops the test of the longer subtrahend's high digits")
mut("c01-sub-refval-ignores-lo-borrow", "C01", S, "            if lo_borrow != 0 {\n", "            if lo_borrow != 0 && other_len == 0 {\n", "&a - b (by value) ignores the borrow out of the low part")
mut("c01-sub-asm-borrow-lost", "C01", S, "    let mut borrow = b as u8;\n\n    for (a, b) in a_lo[done..]", "    let mut borrow = (b && done < 10) as u8;\n\n    for (a, b) in a_lo[done..]", "borrow out of the asm block is lost when the block covered 10 or more digits")
# ---- C02
mut("c02-karatsuba-temp-short", "C02", MU, "        let len = x1.len() + y1.len() + 1;", "        let len = x1.len() + y1.len();", "Karatsuba temporary one digit short")
mut("c02-half-karatsuba-threshold", "C02", MU, "    } else if x.len() * 2 <= y.len() {", "    } else if x.len() * 2 < y.len() {", "half-Karatsuba condition excludes the exact 2x case")
mut("c02-karatsuba-minus-arm", "C02", MU, "            Minus => {\n                mac3(&mut acc[b..], &j0.data, &j1.data);\n            }", "            Minus => {\n                mac3(&mut acc[b + 1..], &j0.data, &j1.data);\n            }", "Karatsuba negative middle term accumulated one digit too high")
mut("c02-toom3-split", "C02", MU, "        let i = y.len() / 3 + 1;", "        let i = y.len() / 3;", "Toom-3 split point without the +1")
mut("c02-toom3-interp", "C02", MU, "        comp2 += &comp1 - &r4;", "        comp2 += &comp1 - &r4 - 0u32 * &r0;\n        if comp2.bits() == 12345 {\n            comp2 += 1u32;\n        }", "Toom-3 interpolation perturbed for one specific bit length")
mut("c02-long-threshold-off", "C02", MU, "    if x.len() <= 32 {\n", "    if x.len() <= 32 || (x.len() == 37 && y.len() == 41) {\n        if x.len() == 37 {\n            let n = acc.len();\n            acc[n - 1] ^= 0;\n            acc[0] ^= (y[0] & 1) << 1;\n        }\n", "one specific shape (37 x 41 digits) gets a corrupted low digit")
mut("c02-mac-digit-skip-one", "C02", MU, "    if c == 0 {\n        return;\n    }", "    if c == 0 || (c == 1 && b.len() == 13) {\n        return;\n    }", "multiply-accumulate row skipped when the multiplier digit is 1 and the row has 13 digits")
# ---- C03
mut("c03-addback-no-decrement", "C03", D, "            q0 -= 1;\n            borrow -= __add2(&mut a.data[j..], b);", "            borrow -= __add2(&mut a.data[j..], b);", "add-back step forgets to decrement the quotient digit")
mut("c03-refine-if-not-while", "C03", D, "        while r <= big_digit::MAX as DoubleBigDigit\n            && big_digit::to_doublebigdigit(r as BigDigit, a2)", "        if r <= big_digit::MAX as DoubleBigDigit\n            && big_digit::to_doublebigdigit(r as BigDigit, a2)", "3-by-2 quotient refinement runs at most once")
mut("c03-borrow-ge", "C03", D, "        if borrow > a0 {", "        if borrow >= a0 && borrow > 0 {", "add-back triggered also when the borrow equals the top digit")
mut("c03-rem-not-shifted", "C03", D, "        let (q, r) = div_rem_core(u.clone() << shift, &(d << shift).data);", "XX", "placeholder (replaced below)")
M.pop()
mut("c03-rem-not-shifted", "C03", D, "pub(super) fn div_rem_ref(u: &BigUint, d: &BigUint) -> (BigUint, BigUint) {", "pub(super) fn div_rem_ref(u: &BigUint, d: &BigUint) -> (BigUint, BigUint) {\n    if d.data.len() == 3 && u.data.len() == 4 && d.data[2].leading_zeros() == 7 {\n        let (q, r) = div_rem_ref(&(u << 7usize), &(d << 7usize));\n        return (q, r);\n    }", "remainder not shifted back for one normalisation shift (7) and shape (4 by 3 digits)")
mut("c03-divfloor-sign", "C03", "src/bigint/division.rs", "XX", "YY", "placeholder")
M.pop()
mut("c03-checked-div-guard", "C03", D, "    fn checked_div(&self, v: &BigUint) -> Option<BigUint> {\n        if v.is_zero() {\n            return None;\n        }", "    fn checked_div(&self, v: &BigUint) -> Option<BigUint> {\n        if v.is_zero() && self.is_zero() {\n            return None;\n        }", "BigUint::checked_div guards only 0/0")
# ---- C04
mut("c04-xor-no-normalize", "C04", "src/biguint/bits.rs", "            self.data.extend(extra.iter().cloned());\n        }\n        self.normalize();\n    }\n}", "            self.data.extend(extra.iter().cloned());\n            self.normalize();\n        }\n    }\n}", "BitXorAssign normalises only when the other operand was longer")
mut("c04-shr-assign-sign", "C04", "src/bigint/shift.rs", "                } else if self.data.is_zero() {\n                    self.sign = NoSign;\n                }", "                }", "BigInt >>= leaves a stale sign when the magnitude becomes zero")
# ---- C05
mut("c05-monty-no-final-sub", "C05", "src/biguint/monty.rs", "    if zz >= *m {\n        // Common case", "    if zz > *m {\n        // Common case", "Montgomery final reduction skips the case zz == m")
mut("c05-monty-base-len", "C05", "src/biguint/monty.rs", "    if x.data.len() > num_words {\n        x %= m;", "    if x.data.len() > num_words + 1 {\n        x %= m;", "Montgomery base reduced only when at least two digits longer than the modulus")
mut("c05-plain-modpow-zero-digit", "C05", "src/biguint/power.rs", "        crate::verif_probe::hit(32);\n        for _ in 0..big_digit::BITS {", "        crate::verif_probe::hit(32);\n        for _ in 1..big_digit::BITS {", "plain modpow squares BITS-1 times per zero low exponent digit")
mut("c05-modpow-sign", "C05", "src/bigint/power.rs", "    let (sign, mag) = match (x.is_negative() && exponent.is_odd(), modulus.is_negative()) {", "    let (sign, mag) = match (x.is_negative() && !exponent.is_even() && exponent.bits() < 64, modulus.is_negative()) {", "BigInt modpow sign rule ignores exponents of 64 bits or more")
mut("c05-modinv-lt", "C05", "src/biguint.rs", "            let t2 = if t0 < qt1 {", "            let t2 = if t0 <= qt1 {", "modinv coefficient update uses <= (result m instead of 0 shifted by modulus)")
# ---- C06
mut("c06-from-radix-first-chunk", "C06", "src/biguint/convert.rs", "    let i = if r == 0 { power } else { r };", "    let i = if r == 0 { power } else { r.max(2) };", "first chunk of from_radix_digits_be takes two digits when the residue is 1")
mut("c06-underscore-first", "C06", "src/biguint/convert.rs", "        if s.starts_with('_') {\n            // Must lead with a real digit!\n            return Err(ParseBigIntError::invalid());\n        }", "        if s.starts_with(\"__\") {\n            // Must lead with a real digit!\n            return Err(ParseBigIntError::invalid());\n        }", "a single leading underscore is accepted")
mut("c06-bigbase-equal", "C06", "src/biguint/convert.rs", "        while digits > big_base {", "        while digits >= big_base && digits.data.len() > 3 {", "big-base loop also runs for equality (exactly-full super chunk)")
mut("c06-inexact-bitwise", "C06", "src/biguint/convert.rs", "pub(super) fn to_radix_le(u: &BigUint, radix: u32) -> Vec<u8> {\n    assert!(", "pub(super) fn to_radix_le(u: &BigUint, radix: u32) -> Vec<u8> {\n    if radix == 32 && u.data.len() == 5 {\n        let mut v = to_inexact_bitwise_digits_le(u, 5);\n        let n = v.len();\n        v.swap(n - 1, 0);\n        return v;\n    }\n    assert!(", "radix 32 output of 5-digit values has two digits swapped")
# ---- C07
mut("c07-andnegneg-push", "C07", "src/bigint/bits.rs", "    if carry_and != 0 {\n        a.push(1);\n    }\n}\n\nforward_val_val_binop!(impl BitAnd for BigInt, bitand);", "    if carry_and != 0 && a.len() < 3 {\n        a.push(1);\n    }\n}\n\nforward_val_val_binop!(impl BitAnd for BigInt, bitand);", "neg & neg drops the extra top digit for operands of 3 or more digits")
mut("c07-shr-round-down", "C07", "src/bigint/shift.rs", "zeros < shift).unwrap_or(true)", "zeros + 1 < shift).unwrap_or(true)", "negative >> k rounds toward zero when exactly one set bit is shifted out")
mut("c07-shr2-borrow", "C07", "src/biguint/shift.rs", "            let new_borrow = *elem << borrow_shift;", "            let new_borrow = if shift == 63 { 0 } else { *elem << borrow_shift };", "right shift by 63 (mod 64) loses the bits crossing a digit boundary")
mut("c07-trailing-ones", "C07", "src/biguint.rs", "            self.data.len() as u64 * u64::from(big_digit::BITS)\n        }\n    }", "            (self.data.len() as u64).saturating_sub(1) * u64::from(big_digit::BITS)\n        }\n    }", "trailing_ones of an all-ones value is one digit short")
# ---- C08
mut("c08-to-i64-min", "C08", "src/bigint/convert.rs", "                    Equal => Some(i64::MIN),", "                    Equal => None,", "to_i64 rejects i64::MIN")
mut("c08-f64-overflow-edge", "C08", "src/biguint/convert.rs", "        if exponent > f64::MAX_EXP as u64 {", "        if exponent >= f64::MAX_EXP as u64 - 63 {", "to_f64 returns infinity one binade too early")
mut("c08-from-f64-no-trunc", "C08", "src/biguint/convert.rs", "        n = n.trunc();\n\n        // handle 0.x, -0.x\n        if n.is_zero() {\n            return Some(Self::ZERO);\n        }", "        if n.abs() < 1.0 {\n            return Some(Self::ZERO);\n        }", "from_f64 no longer truncates: -1.5 etc. unaffected, but 0.x handling only")
# ---- C09
mut("c09-len-flag", "C09", "src/biguint/iter.rs", "                self.data.len() * 2\n                    - usize::from(self.last_hi_is_zero)\n                    - usize::from(!self.next_is_lo)", "                self.data.len() * 2 - usize::from(self.last_hi_is_zero)", "U32Digits::len ignores a half-consumed first digit")
mut("c09-nextback-flag", "C09", "src/biguint/iter.rs", "                            if data.is_empty() && !self.next_is_lo {\n                                self.next_is_lo = true;\n                                None", "                            if data.is_empty() && !self.next_is_lo {\n                                None", "next_back forgets to reset next_is_lo when the last half digit was already taken from the front")
mut("c09-signed-bytes-exception", "C09", "src/bigint/convert.rs", "            && bytes.iter().rev().skip(1).all(Zero::is_zero)\n            && x.sign == Sign::Minus)", "            && bytes.iter().rev().skip(1).all(Zero::is_zero))", "to_signed_bytes_le applies the -2^(8k-1) exception to positive values too")
# ---- C11
mut("c11-fixpoint-ge", "C11", "src/biguint.rs", "    while x > xn {\n", "    while x > xn && x.bits() != 77 {\n", "root descent stops early when the estimate has exactly 77 bits")
mut("c11-bits-le-n", "C11", "src/biguint.rs", "        if bits <= n64 {", "        if bits <= n64 + 1 {", "nth_root returns 1 for values one bit above the shortcut")
# ---- C12
mut("c12-powsign", "C12", "src/bigint/power.rs", "    } else if sign != Minus || other.is_odd() {", "    } else if sign != Minus || !other.is_multiple_of(&(T::one() + T::one() + T::one() + T::one())) {", "negative base: even exponents not divisible by 4 keep the minus sign")
mut("c12-pow-zero-zero", "C12", "src/biguint/power.rs", "    fn pow(self, exp: &BigUint) -> BigUint {\n        if self.is_one() || exp.is_zero() {\n            BigUint::one()\n        } else if self.is_zero() {\n            BigUint::ZERO", "    fn pow(self, exp: &BigUint) -> BigUint {\n        if self.is_zero() {\n            BigUint::ZERO\n        } else if self.is_one() || exp.is_zero() {\n            BigUint::one()", "(&0).pow(&BigUint 0) returns 0")
# ---- C13
mut("c13-gcd-shift", "C13", "src/biguint.rs", "        let shift = cmp::min(twos(&n), twos(&m));", "        let shift = cmp::min(twos(&n), twos(&m)) % 128;", "gcd loses common powers of two beyond 2^127")
mut("c13-lcm-zero", "C13", "src/bigint.rs", "        let lcm = if egcd.gcd.is_zero() {\n            Self::ZERO\n        } else {", "        let lcm = if egcd.gcd.is_one() {\n            Self::ZERO\n        } else {", "extended_gcd_lcm returns lcm 0 for coprime operands (and divides by zero for 0,0)")
# ---- C14
mut("c14-nth-root-assert", "C14", "src/bigint.rs", "            !(self.is_negative() && n.is_even()),", "            !(self.is_negative() && n.is_even() && n < 64),", "even roots of negatives with n >= 64 no longer panic")
# ---- C17
mut("c17-serde-len", "C17", "src/biguint/serde.rs", "                let u32_len = data.len() * 2 + 1 + (last_hi != 0) as usize;", "                let u32_len = data.len() * 2 + 2;", "declared sequence length always counts the high half")
mut("c17-serde-odd-tail", "C17", "src/biguint/serde.rs", "                } else {\n                    data.push(value);\n                    break;\n                }", "                } else {\n                    break;\n                }", "visitor drops the odd trailing u32 word")
# ---- C18
mut("c18-mask-instead-of-shift", "C18", "src/bigrand.rs", "        data[last] >>= 32 - rem;", "        data[last] &= (1u32 << rem) - 1;", "top word masked instead of shifted: still in range, different function of the stream")
mut("c18-range-ubound-zero", "C18", "src/bigrand.rs", "            lbound + BigInt::from(self.gen_biguint_below(lbound.magnitude()))", "            lbound - BigInt::from(self.gen_biguint_below(lbound.magnitude()))", "gen_bigint_range with ubound = 0 subtracts instead of adds")
# ---- C19
mut("c19-abs-sub", "C19", "src/bigint.rs", "        if *self <= *other {\n            Self::ZERO", "        if self.magnitude() <= other.magnitude() {\n            Self::ZERO", "abs_sub compares magnitudes instead of values")
mut("c19-is-one", "C19", "src/bigint.rs", "        self.sign == Plus && self.data.is_one()", "        self.data.is_one()", "BigInt::is_one ignores the sign")
# ---- C20
mut("c20-threshold", "C20", MU, "    if x.len() <= 32 {\n", "    if x.len() <= 32000 {\n", "schoolbook multiplication used for every size")
# ---- C10
mut("c10-rem-i32", "C10", "src/bigint/division.rs", "XX", "YY", "placeholder")
M.pop()
# ---- C16
mut("c16-nostd-capacity", "C16", "src/biguint/convert.rs", "        ((u.bits() as usize) / radix_log2) + 1\n    };", "        ((u.bits() as usize) / radix_log2) + 1\n    };\n    #[cfg(not(feature = \"std\"))]\n    if radix == 7 && u.bits() > 200 {\n        return vec![0; radix_digits];\n    }", "no_std build returns zeros for radix 7 of values above 200 bits")

ROOT = os.path.dirname(os.path.dirname(os.path.abspath(__file__)))

def make_patches(repo="/repo"):
    out = os.path.join(ROOT, "mutants", "own")
    os.makedirs(out, exist_ok=True)
    ok, bad = [], []
    for m in M:
        p = os.path.join(repo, m["path"])
        s = open(p).read()
        if s.count(m["old"]) != 1:
            bad.append((m["id"], s.count(m["old"])))
            continue
        open(p, "w").write(s.replace(m["old"], m["new"]))
        diff = subprocess.check_output(["git", "-C", repo, "diff"], text=True)
        subprocess.check_call(["git", "-C", repo, "checkout", "--", m["path"]])
        open(os.path.join(out, m["id"] + ".diff"), "w").write(diff)
        json.dump({"id": m["id"], "property": m["prop"], "description": m["desc"], "file": m["path"]}, open(os.path.join(out, m["id"] + ".json"), "w"), indent=1)
        ok.append(m["id"])
    print("patches:", len(ok), "unmatched:", bad)

if __name__ == "__main__":
    make_patches(sys.argv[1] if len(sys.argv) > 1 else "/repo")
