#!/usr/bin/env python3
"""C16 part K1: build num-bigint (from /repo's working tree) for every documented feature subset.
Complete enumeration of the lattice: 16 subsets of {rand,serde,quickcheck,arbitrary} with std and
the 4 subsets of {rand,serde} without std (as ci/test_full.sh).  Writes an evidence part and prints
VIOLATION lines.  Usage: c16_matrix.py quick|thorough"""
import itertools, json, os, subprocess, sys, time, hashlib
from concurrent.futures import ThreadPoolExecutor
ROOT = os.path.dirname(os.path.dirname(os.path.abspath(__file__)))
tier = sys.argv[1] if len(sys.argv) > 1 else "quick"
t0 = time.time()
std_opt = ["rand", "serde", "quickcheck", "arbitrary"]
nostd_opt = ["rand", "serde"]
subsets = []
for r in range(len(std_opt) + 1):
    for c in itertools.combinations(std_opt, r):
        subsets.append(("std",) + c)
for r in range(len(nostd_opt) + 1):
    for c in itertools.combinations(nostd_opt, r):
        subsets.append(tuple(c))
jobs = []
extreme = {("std",), ("std",) + tuple(std_opt), (), tuple(nostd_opt)}
for s in subsets:
    jobs.append((s, "dev"))
    if tier == "thorough" or s in extreme:
        jobs.append((s, "release"))
NPAR = 4
def cmd_for(s, profile):
    c = ["cargo", "build", "--offline", "--lib", "--manifest-path", os.path.join(os.environ.get("NBMC_REPO", "/repo"), "Cargo.toml"), "--no-default-features"]
    if s:
        c += ["--features", " ".join(s)]
    if profile == "release":
        c.append("--release")
    return c
def run(idx_job):
    idx, (s, profile) = idx_job
    env = dict(os.environ)
    env["CARGO_TARGET_DIR"] = os.path.join(ROOT, "target", "k1-%d" % (idx % NPAR))
    env["CARGO_NET_OFFLINE"] = "true"
    env.pop("RUSTFLAGS", None)
    c = cmd_for(s, profile)
    p = subprocess.run(c, env=env, stdout=subprocess.PIPE, stderr=subprocess.STDOUT, text=True)
    return (s, profile, p.returncode, p.stdout, c)
# jobs with the same index mod NPAR share a target dir and must not overlap: one thread per dir
def lane(k):
    return [run((i, j)) for i, j in enumerate(jobs) if i % NPAR == k]
results = []
with ThreadPoolExecutor(NPAR) as ex:
    for r in ex.map(lane, range(NPAR)):
        results += r
viol = 0
samples = []
os.makedirs(os.path.join(ROOT, "replays"), exist_ok=True)
for (s, profile, rc, out, c) in results:
    name = "+".join(s) if s else "(no features)"
    if len(samples) < 6:
        samples.append("features [%s] profile %s -> %s" % (name, profile, "builds" if rc == 0 else "FAILS"))
    if rc != 0:
        viol += 1
        errs = [l for l in out.splitlines() if l.startswith("error")][:3]
        key = "build:%s:%s" % (name, profile)
        rp = "replays/C16-%s.json" % hashlib.sha1(key.encode()).hexdigest()[:16]
        shell = "CARGO_TARGET_DIR=%s/target/k1-replay %s" % (ROOT, " ".join("'%s'" % a if " " in a else a for a in c))
        json.dump({"property": "C16", "tier": tier, "config": "matrix", "shell_cmd": shell,
                   "violation": {"key": key, "what": "feature configuration does not build", "errors": errs}}, open(os.path.join(ROOT, rp), "w"), indent=1)
        print("VIOLATION property=C16 replay=%s  # features [%s] profile %s does not build: %s" % (rp, name, profile, " | ".join(errs)[:300]))
n = len(results)
ev = {"property_id": "C16", "tier": tier, "seed": 0, "level": "model_checking",
      "coverage": {"states": n, "transitions": n, "traces_validated_against_impl": n, "evaluations": n,
                   "distinct_nontrivial": len([1 for (s, p, rc, o, c) in results if len(s) >= 2]),
                   "rule": "K1: one cargo build --lib of /repo's working tree per (feature subset, profile); the lattice of 20 documented subsets is enumerated completely",
                   "samples": samples, "exhaustive": True, "feature_subsets": len(subsets), "builds": n, "build_failures": viol,
                   "bounds": "20 feature subsets x dev profile + release for %s" % ("all subsets" if tier == "thorough" else "the 4 extreme subsets")},
      "assumptions": ["hooks off for the build matrix (what a user builds); x86_64-linux only"],
      "wall_s": time.time() - t0, "violations": viol}
os.makedirs(os.path.join(ROOT, "target", "evidence-parts"), exist_ok=True)
json.dump(ev, open(os.path.join(ROOT, "target", "evidence-parts", "C16.k1.json"), "w"), indent=1)
print("C16 K1 %s: %d builds over %d feature subsets, %d failures, %.1fs" % (tier, n, len(subsets), viol, time.time() - t0))
sys.exit(1 if viol else 0)
