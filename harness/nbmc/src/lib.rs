//! Glue between the reference model and num-bigint, shared by all check binaries.

pub use nbmc_core::alpha;
pub use nbmc_core::refint::{self, Int, Nat};
pub use nbmc_core::runner::{self, fnv, guard, Ctx, Spec, Tier};
pub use num_bigint::{BigInt, BigUint, Sign};

#[cfg(feature = "guardalloc")]
pub mod guardalloc;
#[cfg(feature = "guardalloc")]
#[global_allocator]
static GLOBAL: guardalloc::GuardAlloc = guardalloc::GuardAlloc;

/// BigUint from little-endian u64 digits (trailing zeros allowed), through the public API.
pub fn bu(d: &[u64]) -> BigUint {
    let mut v = Vec::with_capacity(d.len() * 2);
    for &x in d {
        v.push(x as u32);
        v.push((x >> 32) as u32);
    }
    BigUint::new(v)
}
/// The same value on a buffer with spare capacity (at least `want` digits of capacity when the
/// library's own shrink rule -- shrink when len < capacity/4 -- allows it).  Built only from public
/// in-place operations; the achieved capacity is read through the raw-view hook and returned.
pub fn with_slack(x: &BigUint, want: usize) -> (BigUint, usize) {
    let len = x.to_u64_digits().len();
    let mut best = (x.clone(), num_bigint::verif_probe::raw_biguint(x).1);
    for extra in [want.saturating_sub(len), want.saturating_sub(len) + 1, 2 * len + 2, 3 * len, len + 1] {
        if extra == 0 {
            continue;
        }
        let mut y = x.clone();
        let k = 64 * extra;
        y <<= k;
        y >>= k;
        let cap = num_bigint::verif_probe::raw_biguint(&y).1;
        if cap > best.1 && y == *x {
            best = (y, cap);
        }
        if best.1 >= want {
            break;
        }
    }
    best
}
pub fn bu_nat(n: &Nat) -> BigUint {
    bu(n.digits())
}
pub fn bi_int(i: &Int) -> BigInt {
    let m = bu_nat(&i.mag);
    if i.neg {
        BigInt::from_biguint(Sign::Minus, m)
    } else {
        BigInt::from(m)
    }
}
/// Value of a BigUint read through the public digit export.  (Trailing zero digits are dropped
/// here; use `nat_chk` where the canonical-form invariant is to be checked.)
pub fn nat_of(b: &BigUint) -> Nat {
    Nat::from_digits(&b.to_u64_digits())
}
pub fn int_of(b: &BigInt) -> Int {
    let (s, d) = b.to_u64_digits();
    Int::new(s == Sign::Minus, Nat::from_digits(&d))
}

/// Export + canonical-form invariant (the C04 wrapper): the digit export must not end in a zero
/// digit.  Returns the value; records a violation under `form` if the invariant is broken.
pub fn nat_chk(ctx: &mut Ctx, form: &str, b: &BigUint) -> Nat {
    let d = b.to_u64_digits();
    if d.last() == Some(&0) {
        ctx.viol(format!("noncanonical:{}:{:x?}", form, d), "result exports a trailing zero digit (not canonical)", vec![format!("{:x?}", d)], "no trailing zero digit".into(), format!("{:x?}", d));
    }
    Nat::from_digits(&d)
}
pub fn int_chk(ctx: &mut Ctx, form: &str, b: &BigInt) -> Int {
    let (s, d) = b.to_u64_digits();
    let zero = d.iter().all(|&x| x == 0);
    if d.last() == Some(&0) || (s == Sign::NoSign) != zero {
        ctx.viol(
            format!("noncanonical:{}:{:?}:{:x?}", form, s, d),
            "BigInt result is not canonical (trailing zero digit or sign/zero mismatch)",
            vec![format!("{:?} {:x?}", s, d)],
            "NoSign iff zero, no trailing zero digit".into(),
            format!("{:?} {:x?}", s, d),
        );
    }
    Int::new(s == Sign::Minus && !zero, Nat::from_digits(&d))
}

pub fn probes() -> Vec<(String, u64)> {
    let snap = num_bigint::verif_probe::snapshot();
    let mut v: Vec<(String, u64)> = num_bigint::verif_probe::NAMES.iter().zip(snap.iter()).filter(|(n, _)| !n.starts_with("reserved")).map(|(n, &h)| (n.to_string(), h)).collect();
    v.push(("MAC_WORK".to_string(), num_bigint::verif_probe::MAC_WORK.load(std::sync::atomic::Ordering::Relaxed)));
    v
}

pub fn hexs(d: &[u64]) -> String {
    Nat::from_digits(d).to_hex()
}

/// Outcome class of a guarded call.
#[derive(Debug, Clone, PartialEq, Eq)]
pub enum Out<T> {
    Ret(T),
    Panic(String),
}
pub fn call<T>(ctx: &mut Ctx, f: impl FnOnce() -> T) -> Out<T> {
    ctx.calls(1);
    runner::tick(); // every completed call is progress for the hang watchdog
    match guard(f) {
        Ok(v) => Out::Ret(v),
        Err(m) => Out::Panic(m),
    }
}

/// Expect a returned BigUint equal to `want`.
pub fn expect_nat(ctx: &mut Ctx, form: &str, args: &dyn Fn() -> Vec<String>, got: Out<BigUint>, want: &Nat) {
    ctx.compared(1);
    match got {
        Out::Ret(r) => {
            let n = nat_chk(ctx, form, &r);
            if &n != want {
                let a = args();
                ctx.viol(format!("{} {}", form, a.join(" ")), "result differs from the reference model", a, want.to_hex(), n.to_hex());
            }
        }
        Out::Panic(m) => {
            let a = args();
            ctx.viol(format!("{} {}", form, a.join(" ")), "unexpected panic", a, want.to_hex(), format!("panic: {}", m));
        }
    }
}
pub fn expect_int(ctx: &mut Ctx, form: &str, args: &dyn Fn() -> Vec<String>, got: Out<BigInt>, want: &Int) {
    ctx.compared(1);
    match got {
        Out::Ret(r) => {
            let n = int_chk(ctx, form, &r);
            if &n != want {
                let a = args();
                ctx.viol(format!("{} {}", form, a.join(" ")), "result differs from the reference model", a, want.to_hex(), n.to_hex());
            }
        }
        Out::Panic(m) => {
            let a = args();
            ctx.viol(format!("{} {}", form, a.join(" ")), "unexpected panic", a, want.to_hex(), format!("panic: {}", m));
        }
    }
}
/// Expect a panic (documented failure case).
pub fn expect_panic<T: std::fmt::Debug>(ctx: &mut Ctx, form: &str, args: &dyn Fn() -> Vec<String>, got: Out<T>) {
    ctx.compared(1);
    if let Out::Ret(r) = got {
        let a = args();
        ctx.viol(format!("{} {}", form, a.join(" ")), "documented failure case returned a value instead of panicking", a, "panic".into(), format!("{:?}", r));
    }
}
/// A String handed back by the library may (under a defect in the unchecked byte-to-String conversions) hold
/// bytes that are not UTF-8; formatting or slicing such a String in the harness would panic outside any
/// guarded call.  This reports it as a violation and returns a lossy, valid copy to continue with.
pub fn clean_str(ctx: &mut Ctx, form: &str, s: String) -> String {
    match String::from_utf8(s.into_bytes()) {
        Ok(s) => s,
        Err(e) => {
            let b = e.into_bytes();
            let head: Vec<u8> = b.iter().take(24).copied().collect();
            ctx.viol(format!("invalid-utf8:{}:{:?}", form, head), "the library returned a String that is not valid UTF-8", vec![form.to_string()], "valid (ASCII) text".into(), format!("bytes {:?}", head));
            String::from_utf8_lossy(&b).into_owned()
        }
    }
}
pub fn clean_strs(ctx: &mut Ctx, form: &str, v: Vec<String>) -> Vec<String> {
    v.into_iter().map(|s| clean_str(ctx, form, s)).collect()
}
/// `call` for closures returning a String: the result is passed through `clean_str`.
pub fn call_str(ctx: &mut Ctx, form: &str, f: impl FnOnce() -> String) -> Out<String> {
    match call(ctx, f) {
        Out::Ret(s) => Out::Ret(clean_str(ctx, form, s)),
        o => o,
    }
}
/// Expect `None` without a panic.
pub fn expect_none<T: std::fmt::Debug>(ctx: &mut Ctx, form: &str, args: &dyn Fn() -> Vec<String>, got: Out<Option<T>>) {
    ctx.compared(1);
    match got {
        Out::Ret(None) => {}
        Out::Ret(Some(r)) => {
            let a = args();
            ctx.viol(format!("{} {}", form, a.join(" ")), "checked operation returned Some in a failure case", a, "None".into(), format!("Some({:?})", r));
        }
        Out::Panic(m) => {
            let a = args();
            ctx.viol(format!("{} {}", form, a.join(" ")), "checked operation panicked", a, "None".into(), format!("panic: {}", m));
        }
    }
}
