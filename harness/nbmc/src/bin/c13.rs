//! C13 -- GCD, LCM, Bezout coefficients and multiple-of helpers are exact.
use nbmc::*;
use num_integer::Integer;

const SPEC: Spec = Spec {
    id: "C13",
    engine: "E-prod (exhaustive enumeration of operand pairs; real code vs refint Euclid and the defining identities)",
    rule: "every ordered pair (a,b) of the stated families (all four sign pairs) through gcd, lcm, gcd_lcm, extended_gcd, extended_gcd_lcm, is_multiple_of, divides, next_multiple_of, prev_multiple_of and every value through is_even, is_odd, inc, dec; gcd compared with refint Euclid (shift-subtract remainders), lcm*gcd = |a*b|, a*x + b*y = g >= 0, helpers against their floor-division definitions (and, on the small square, against num-integer's i64 implementations); non-trivial = both operands non-zero and gcd > 1 or an operand >= 2 digits",
    assumptions: &[
        "operand families: the complete small square, a structured family of large values (powers of two 2^i with i spanning several digits times odd parts with known common factors) and Dense(S5,2)^2",
        "refint gcd is trusted; cross-checked against Python math.gcd on a transcript slice",
    ],
    bounds_quick: "G1 all (a,b) in [-300,300]^2; G2 T x T with T = {2^i*u : 14 shifts i up to 200, u in 9 odd parts} x 4 sign pairs; G3 Dense(S5,3) x Dense(S5,2) x 4 sign pairs; G5 consecutive Fibonacci numbers F(k),F(k+1) for k in {100,1000,1500,3000} (plain and with a common factor) and 2^k-1 against 2^(k-1)+1; G6 (+-Dense(S16,2))^2 (half-digit alphabet)",
    bounds_thorough: "G1 [-1000,1000]^2; G2 with 22 shifts up to 320 and 9 odd parts; G3 Dense(S5,3)^2 x 4 sign pairs; G5 up to k=10000",
    hang_secs: 60,
    probes: None,
    max_workers: 16,
};

fn pair(ctx: &mut Ctx, a: &Int, b: &Int, small: Option<(i64, i64)>) {
    ctx.case();
    let g = a.mag.gcd(&b.mag);
    if !a.is_zero() && !b.is_zero() && (!g.is_one() || a.mag.len() >= 2 || b.mag.len() >= 2) {
        ctx.nontrivial(1);
    }
    ctx.tr(|| format!("gcd {} {} {}", a.mag.to_hex(), b.mag.to_hex(), g.to_hex()));
    ctx.outcome_digits(g.digits());
    let l = if g.is_zero() { Nat::zero() } else { a.mag.mul(&b.mag).divrem(&g).0 };
    let gi = Int::from_nat(g.clone());
    let li = Int::from_nat(l.clone());
    let x = bi_int(a);
    let y = bi_int(b);
    let args = || vec![format!("a={}", a.to_hex()), format!("b={}", b.to_hex())];
    let r = call(ctx, || x.gcd(&y));
    expect_int(ctx, "BigInt gcd", &args, r, &gi);
    let r = call(ctx, || x.lcm(&y));
    expect_int(ctx, "BigInt lcm", &args, r, &li);
    match call(ctx, || x.gcd_lcm(&y)) {
        Out::Ret((p, q)) => {
            expect_int(ctx, "BigInt gcd_lcm.0", &args, Out::Ret(p), &gi);
            expect_int(ctx, "BigInt gcd_lcm.1", &args, Out::Ret(q), &li);
        }
        Out::Panic(m) => ctx.viol(format!("BigInt gcd_lcm {}", args().join(" ")), "panic", args(), "(g,l)".into(), m),
    }
    // Bezout
    let bez = |ctx: &mut Ctx, form: &str, e: num_integer::ExtendedGcd<BigInt>| {
        ctx.compared(1);
        let (eg, ex, ey) = (int_chk(ctx, form, &e.gcd), int_chk(ctx, form, &e.x), int_chk(ctx, form, &e.y));
        let lhs = a.mul(&ex).add(&b.mul(&ey));
        if eg != gi || lhs != gi {
            ctx.viol(format!("{} {}", form, args().join(" ")), "a*x + b*y = g = gcd(a,b) >= 0 fails", args(), format!("g={}", gi.to_hex()), format!("g={} x={} y={} a*x+b*y={}", eg.to_hex(), ex.to_hex(), ey.to_hex(), lhs.to_hex()));
        }
    };
    match call(ctx, || x.extended_gcd(&y)) {
        Out::Ret(e) => bez(ctx, "BigInt extended_gcd", e),
        Out::Panic(m) => ctx.viol(format!("BigInt extended_gcd {}", args().join(" ")), "panic", args(), "(g,x,y)".into(), m),
    }
    match call(ctx, || x.extended_gcd_lcm(&y)) {
        Out::Ret((e, q)) => {
            bez(ctx, "BigInt extended_gcd_lcm", e);
            expect_int(ctx, "BigInt extended_gcd_lcm.lcm", &args, Out::Ret(q), &li);
        }
        Out::Panic(m) => ctx.viol(format!("BigInt extended_gcd_lcm {}", args().join(" ")), "panic", args(), "((g,x,y),l)".into(), m),
    }
    // is_multiple_of / divides: only zero is a multiple of zero
    let want_mult = if b.is_zero() { a.is_zero() } else { a.mag.divrem(&b.mag).1.is_zero() };
    ctx.compared(2);
    let r = call(ctx, || (x.is_multiple_of(&y), x.divides(&y)));
    if r != Out::Ret((want_mult, want_mult)) {
        ctx.viol(format!("BigInt is_multiple_of {}", args().join(" ")), "is_multiple_of/divides wrong", args(), format!("{}", want_mult), format!("{:?}", r));
    }
    // next / prev multiple
    if b.is_zero() {
        let r = call(ctx, || x.next_multiple_of(&y));
        expect_panic(ctx, "BigInt next_multiple_of(_, 0)", &args, r);
        let r = call(ctx, || x.prev_multiple_of(&y));
        expect_panic(ctx, "BigInt prev_multiple_of(_, 0)", &args, r);
    } else {
        let m = a.divrem_floor(b).1;
        let next = if m.is_zero() { a.clone() } else { a.add(&b.sub(&m)) };
        let prev = a.sub(&m);
        let r = call(ctx, || x.next_multiple_of(&y));
        expect_int(ctx, "BigInt next_multiple_of", &args, r, &next);
        let r = call(ctx, || x.prev_multiple_of(&y));
        expect_int(ctx, "BigInt prev_multiple_of", &args, r, &prev);
        if let Some((p, q)) = small {
            // the documented semantics: num-integer's own i64 implementations
            ctx.compared(2);
            if Int::from_i64(Integer::next_multiple_of(&p, &q)) != next || Int::from_i64(Integer::prev_multiple_of(&p, &q)) != prev {
                panic!("harness definition of next/prev_multiple_of disagrees with num-integer i64 for {} {}", p, q);
            }
        }
    }
    if let Some((p, q)) = small {
        ctx.compared(2);
        if Int::from_i64(p.gcd(&q)) != gi || Int::from_i64(p.lcm(&q)) != li {
            panic!("refint gcd/lcm disagrees with num-integer i64 for {} {}", p, q);
        }
    }
    // BigUint forms for non-negative operands
    if !a.neg && !b.neg {
        let (u, v) = (bu_nat(&a.mag), bu_nat(&b.mag));
        let r = call(ctx, || u.gcd(&v));
        expect_nat(ctx, "BigUint gcd", &args, r, &g);
        let r = call(ctx, || u.lcm(&v));
        expect_nat(ctx, "BigUint lcm", &args, r, &l);
        match call(ctx, || u.gcd_lcm(&v)) {
            Out::Ret((p, q)) => {
                expect_nat(ctx, "BigUint gcd_lcm.0", &args, Out::Ret(p), &g);
                expect_nat(ctx, "BigUint gcd_lcm.1", &args, Out::Ret(q), &l);
            }
            Out::Panic(m) => ctx.viol(format!("BigUint gcd_lcm {}", args().join(" ")), "panic", args(), "(g,l)".into(), m),
        }
        ctx.compared(2);
        let r = call(ctx, || (u.is_multiple_of(&v), u.divides(&v)));
        if r != Out::Ret((want_mult, want_mult)) {
            ctx.viol(format!("BigUint is_multiple_of {}", args().join(" ")), "is_multiple_of/divides wrong", args(), format!("{}", want_mult), format!("{:?}", r));
        }
        if b.is_zero() {
            let r = call(ctx, || u.next_multiple_of(&v));
            expect_panic(ctx, "BigUint next_multiple_of(_, 0)", &args, r);
            let r = call(ctx, || u.prev_multiple_of(&v));
            expect_panic(ctx, "BigUint prev_multiple_of(_, 0)", &args, r);
        } else {
            let m = a.mag.divrem(&b.mag).1;
            let next = if m.is_zero() { a.mag.clone() } else { a.mag.add(&b.mag.sub(&m).unwrap()) };
            let prev = a.mag.sub(&m).unwrap();
            let r = call(ctx, || u.next_multiple_of(&v));
            expect_nat(ctx, "BigUint next_multiple_of", &args, r, &next);
            let r = call(ctx, || u.prev_multiple_of(&v));
            expect_nat(ctx, "BigUint prev_multiple_of", &args, r, &prev);
        }
        // extended gcd for BigUint goes through the generic default; coefficients may not be
        // representable, so only gcd itself is claimed (property text: BigInt::extended_gcd)
    }
}

fn unary(ctx: &mut Ctx, a: &Int) {
    ctx.case();
    let x = bi_int(a);
    let args = || vec![format!("a={}", a.to_hex())];
    ctx.compared(2);
    let even = a.mag.is_even();
    let r = call(ctx, || (x.is_even(), x.is_odd()));
    if r != Out::Ret((even, !even)) {
        ctx.viol(format!("BigInt is_even/is_odd {}", args().join(" ")), "parity wrong", args(), format!("{:?}", (even, !even)), format!("{:?}", r));
    }
    let one = Int::from_i64(1);
    let r = call(ctx, || {
        let mut t = x.clone();
        t.inc();
        t
    });
    expect_int(ctx, "BigInt inc", &args, r, &a.add(&one));
    let r = call(ctx, || {
        let mut t = x.clone();
        t.dec();
        t
    });
    expect_int(ctx, "BigInt dec", &args, r, &a.sub(&one));
    if !a.neg {
        let u = bu_nat(&a.mag);
        ctx.compared(1);
        let r = call(ctx, || (u.is_even(), u.is_odd()));
        if r != Out::Ret((even, !even)) {
            ctx.viol(format!("BigUint is_even/is_odd {}", args().join(" ")), "parity wrong", args(), format!("{:?}", (even, !even)), format!("{:?}", r));
        }
        let r = call(ctx, || {
            let mut t = u.clone();
            t.inc();
            t
        });
        expect_nat(ctx, "BigUint inc", &args, r, &a.mag.add(&Nat::one()));
        let r = call(ctx, || {
            let mut t = u.clone();
            t.dec();
            t
        });
        if a.is_zero() {
            expect_panic(ctx, "BigUint dec of zero", &args, r);
        } else {
            expect_nat(ctx, "BigUint dec", &args, r, &a.mag.sub(&Nat::one()).unwrap());
        }
    }
}

fn body(ctx: &mut Ctx) {
    let tier = ctx.tier;
    ctx.set_transcript_every(tier.pick(13, 211));
    if ctx.space("G1") {
        let n = tier.pick(300i64, 1000i64);
        for (i, a) in (-n..=n).enumerate() {
            if !ctx.mine(i as u64) {
                continue;
            }
            for b in -n..=n {
                pair(ctx, &Int::from_i64(a), &Int::from_i64(b), Some((a, b)));
            }
            unary(ctx, &Int::from_i64(a));
            ctx.sample(|| format!("a={} with every b in [-{},{}]", a, n, n));
        }
    }
    if ctx.space("G2") {
        let shifts: Vec<u64> = tier.pick(vec![0, 1, 2, 31, 32, 63, 64, 65, 127, 128, 129, 130, 191, 200], vec![0, 1, 2, 31, 32, 33, 63, 64, 65, 95, 96, 127, 128, 129, 130, 191, 192, 200, 255, 256, 257, 320]);
        let m = Nat::from_u64(alpha::M);
        let mut odds: Vec<Nat> = vec![Nat::one(), Nat::from_u64(3), Nat::from_u64(0x1_0000_0001), m.clone(), m.mul(&Nat::from_digits(&[1, 1])), {
            let mut d = alpha::pat(3, 10);
            d[0] |= 1;
            Nat::from_digits(&d)
        }];
        {
            odds.push(Nat::from_u64(641).mul(&Nat::from_u64(6700417)).mul(&Nat::from_u64(65537)));
            odds.push(Nat::from_u64(10_000_000_000_000_061));
            odds.push(Nat::from_digits(&alpha::pat(5, 10)).add(&Nat::one()).shl(0).add(&Nat::zero()));
        }
        let mut t: Vec<Nat> = Vec::new();
        for &i in &shifts {
            for u in &odds {
                t.push(u.shl(i));
            }
        }
        t.push(Nat::zero());
        let mut o = 0u64;
        for a in &t {
            let take = ctx.mine(o);
            o += 1;
            if !take {
                continue;
            }
            for b in &t {
                for (sa, sb) in [(false, false), (false, true), (true, false), (true, true)] {
                    pair(ctx, &Int::new(sa, a.clone()), &Int::new(sb, b.clone()), None);
                }
            }
            unary(ctx, &Int::new(false, a.clone()));
            unary(ctx, &Int::new(true, a.clone()));
            ctx.sample(|| format!("a=+-{} against {} structured values (common powers of two spanning digits, shared odd factors) x 4 sign pairs", a.to_hex(), t.len()));
        }
    }
    if ctx.space("G4") {
        // dense LCG cofactors with a planted common factor g * 2^k
        let lmax = tier.pick(3usize, 5usize);
        let mut o = 0u64;
        for lg in 1..=lmax {
            for k in [0u64, 1, 63, 64, 65, 130] {
                let take = ctx.mine(o);
                o += 1;
                if !take {
                    continue;
                }
                let mut gd = alpha::lcg_digits(lg, k);
                gd[0] |= 1;
                let g = Nat::from_digits(&gd).shl(k);
                for la in 1..=lmax {
                    for lb in 1..=lmax {
                        for salt in 0..2u64 {
                            let a = g.mul(&Nat::from_digits(&alpha::lcg_digits(la, 10 + salt)));
                            let b = g.mul(&Nat::from_digits(&alpha::lcg_digits(lb, 20 + salt)).shl(if salt == 1 { 70 } else { 0 }));
                            for (sa, sb) in [(false, false), (false, true), (true, false), (true, true)] {
                                pair(ctx, &Int::new(sa, a.clone()), &Int::new(sb, b.clone()), None);
                            }
                        }
                    }
                }
                ctx.sample(|| format!("planted common factor g*2^{} ({} digits) times dense LCG cofactors up to {} digits", k, lg, lmax));
            }
        }
    }
    // G6: half-digit value structure
    if ctx.space("G6") {
        let set = alpha::dense(&alpha::SIGMA16, 2);
        for (i, ad) in set.iter().enumerate() {
            if !ctx.mine(i as u64) {
                continue;
            }
            for bd in &set {
                for (sa, sb) in [(false, false), (true, false), (false, true), (true, true)] {
                    pair(ctx, &Int::new(sa, Nat::from_digits(ad)), &Int::new(sb, Nat::from_digits(bd)), None);
                }
            }
        }
        ctx.sample(|| "(+-Dense(S16,2))^2 (16-letter half-digit alphabet)".to_string());
    }
    // G5: operand pairs that keep the gcd loops running for thousands of iterations
    if ctx.space("G5") {
        let ks: Vec<usize> = tier.pick(vec![100, 1000, 1500, 3000], vec![100, 1000, 1500, 3000, 5000, 10000]);
        let mut fibs: Vec<(usize, Nat, Nat)> = Vec::new();
        {
            let (mut a, mut b) = (Nat::zero(), Nat::one());
            let kmax = *ks.iter().max().unwrap();
            for i in 1..=kmax {
                let c = a.add(&b);
                a = b;
                b = c;
                if ks.contains(&i) {
                    fibs.push((i, a.clone(), b.clone())); // F(i), F(i+1)
                }
            }
        }
        let g = Nat::from_digits(&[0x1_0000_0001, 3]).shl(70);
        for (o, (k, f0, f1)) in fibs.iter().enumerate() {
            if !ctx.mine(o as u64) {
                continue;
            }
            let ones = Nat::one().shl(*k as u64).sub(&Nat::one()).unwrap();
            let half = Nat::one().shl(*k as u64 - 1).add(&Nat::one());
            for (a, b) in [(f0.clone(), f1.clone()), (f1.clone(), f0.clone()), (g.mul(f0), g.mul(f1)), (ones.clone(), half.clone()), (g.mul(&half), ones.shl(3))] {
                for (sa, sb) in [(false, false), (true, false), (false, true), (true, true)] {
                    pair(ctx, &Int::new(sa, a.clone()), &Int::new(sb, b.clone()), None);
                }
            }
            ctx.sample(|| format!("consecutive Fibonacci numbers F({0}), F({0}+1) ({1} bits), scaled by a common factor, and 2^{0}-1 against 2^({0}-1)+1: 4 sign pairs", k, f1.bits()));
        }
    }
    if ctx.space("G3") {
        let a_set = alpha::dense(&alpha::SIGMA5, 3);
        let b_set = alpha::dense(&alpha::SIGMA5, tier.pick(2, 3));
        for (i, ad) in a_set.iter().enumerate() {
            if !ctx.mine(i as u64) {
                continue;
            }
            for bd in &b_set {
                for (sa, sb) in [(false, false), (false, true), (true, false), (true, true)] {
                    pair(ctx, &Int::new(sa, Nat::from_digits(ad)), &Int::new(sb, Nat::from_digits(bd)), None);
                }
            }
            ctx.sample(|| format!("a=+-{} against +-Dense(S5,2)", hexs(ad)));
        }
    }
}

fn main() {
    runner::main(SPEC, body)
}
