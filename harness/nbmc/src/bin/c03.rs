//! C03 -- division yields the unique quotient/remainder of each rounding convention.
use nbmc::*;
use num_integer::Integer;
use num_traits::{CheckedDiv, CheckedEuclid, Euclid};

const SPEC: Spec = Spec {
    id: "C03",
    engine: "E-prod (exhaustive product enumeration of dividend/divisor pairs, real code vs refint)",
    rule: "every (dividend, divisor) pair of the stated families is run through every division API of BigUint and (4 sign pairs) BigInt; results are compared with refint's shift-subtract quotient and remainder and the convention-specific adjustment, and the model pair itself is verified by a = q*b + r, 0 <= r < b; non-trivial = divisor has >= 2 digits and dividend > divisor (Knuth core reached)",
    assumptions: &[
        "dense enumeration uses the 8-letter digit alphabet {0,1,2,2^63-1,2^63,2^63+1,2^64-2,2^64-1}; the trial-quotient corner cases are additionally constructed (D4)",
        "refint binary shift-subtract division is trusted; cross-checked against Python int on a transcript slice and self-checked by a = q*b + r on every pair",
        "x86_64 / 64-bit digits only (div_half path not built here)",
    ],
    bounds_quick: "D1 Dense(S8,4)xDense(S8,3) (all APIs, 4 sign pairs); D2 every shift 0..63, one or two low digits, dividends Dense(S5,4); D3 Runs(S8,2,12)xRuns(S8,2,6); D4 constructed q*v+r for v in Dense(S8,3) normalised, q in Dense(S8,2), r in {0,1,v-1}, digit shifts 0..2; D5 zero divisor x pool; D6 scalar forms; D7 dense LCG digits, lengths <= 24 / <= 12, 3 x 10 members; D8 (Dense(S5,3)+lengths 3..12) x (Dense(S5,2)+lengths 3..8) through /= %= and the owning forms on operands with spare buffer capacity; D9 long operands: 300/100, 1100/3, 1100/1, 1100/1050, 1030/515, 200/199 digits x 3x3 shapes; D10 Dense(S16,3) x Dense(S16,2) (16-letter half-digit alphabet); D6c scalar matrix: 13 magnitudes x both signs x 30 edge scalars x 12 primitive types as divisor and dividend; D6b Dense(S5,3) x every 2^k-1, 2^k, 2^k+1 (k<128) as scalar divisor and dividend",
    bounds_thorough: "D1 Dense(S8,4)xDense(S8,4) (all APIs, 4 sign pairs) + Dense(S8,5)xDense(S8,3) (core forms); D2 as quick; D3 Runs(S8,3,12)xRuns(S8,2,8); D4; D5; D6; D7 lengths <= 48 / <= 24; D8 with lengths up to 20; D9 also 2100/1040, 4099/2, 2050/2049",
    hang_secs: 120,
    probes: Some(probes),
    max_workers: 16,
};

struct Op {
    n: Nat,
    u: BigUint,
    pos: BigInt,
    neg: BigInt,
}
fn mk(d: &[u64]) -> Op {
    let n = Nat::from_digits(d);
    let u = bu(d);
    let pos = BigInt::from(u.clone());
    let neg = -pos.clone();
    Op { n, u, pos, neg }
}

fn one() -> Nat {
    Nat::one()
}

fn chk_pair(ctx: &mut Ctx, form: &str, args: &dyn Fn() -> Vec<String>, got: Out<(BigUint, BigUint)>, q: &Nat, r: &Nat) {
    match got {
        Out::Ret((gq, gr)) => {
            expect_nat(ctx, &format!("{} .0", form), args, Out::Ret(gq), q);
            expect_nat(ctx, &format!("{} .1", form), args, Out::Ret(gr), r);
        }
        Out::Panic(m) => {
            ctx.compared(1);
            let a = args();
            ctx.viol(format!("{} {}", form, a.join(" ")), "unexpected panic", a, format!("({}, {})", q.to_hex(), r.to_hex()), format!("panic: {}", m));
        }
    }
}
fn chk_ipair(ctx: &mut Ctx, form: &str, args: &dyn Fn() -> Vec<String>, got: Out<(BigInt, BigInt)>, q: &Int, r: &Int) {
    match got {
        Out::Ret((gq, gr)) => {
            expect_int(ctx, &format!("{} .0", form), args, Out::Ret(gq), q);
            expect_int(ctx, &format!("{} .1", form), args, Out::Ret(gr), r);
        }
        Out::Panic(m) => {
            ctx.compared(1);
            let a = args();
            ctx.viol(format!("{} {}", form, a.join(" ")), "unexpected panic", a, format!("({}, {})", q.to_hex(), r.to_hex()), format!("panic: {}", m));
        }
    }
}
fn some<T: std::fmt::Debug>(ctx: &mut Ctx, form: &str, args: &dyn Fn() -> Vec<String>, got: Out<Option<T>>) -> Option<T> {
    match got {
        Out::Ret(Some(v)) => Some(v),
        Out::Ret(None) => {
            ctx.compared(1);
            let a = args();
            ctx.viol(format!("{} {}", form, a.join(" ")), "checked operation returned None for a non-zero divisor", a, "Some".into(), "None".into());
            None
        }
        Out::Panic(m) => {
            ctx.compared(1);
            let a = args();
            ctx.viol(format!("{} {}", form, a.join(" ")), "checked operation panicked", a, "Some".into(), format!("panic: {}", m));
            None
        }
    }
}

/// `full`: every API incl. BigInt sign pairs; otherwise the core BigUint forms only.
fn div_pair(ctx: &mut Ctx, a: &Op, b: &Op, full: bool) {
    ctx.case();
    let (q, r) = a.n.divrem(&b.n);
    // model self-check (uniqueness form)
    assert!(q.mul(&b.n).add(&r) == a.n && r.lt(&b.n), "refint divrem self-check failed");
    if b.n.len() >= 2 && b.n.lt(&a.n) {
        ctx.nontrivial(1);
    }
    ctx.tr(|| format!("divrem {} {} {} {}", a.n.to_hex(), b.n.to_hex(), q.to_hex(), r.to_hex()));
    ctx.outcome_digits(q.digits());
    ctx.outcome_digits(r.digits());
    let args = || vec![format!("a={}", a.n.to_hex()), format!("b={}", b.n.to_hex())];
    let (au, bu_) = (&a.u, &b.u);

    let x = call(ctx, || au / bu_);
    expect_nat(ctx, "BigUint &a/&b", &args, x, &q);
    let x = call(ctx, || au % bu_);
    expect_nat(ctx, "BigUint &a%&b", &args, x, &r);
    let x = call(ctx, || au.clone() / bu_.clone());
    expect_nat(ctx, "BigUint a/b", &args, x, &q);
    let x = call(ctx, || au.clone() % bu_.clone());
    expect_nat(ctx, "BigUint a%b", &args, x, &r);
    let x = call(ctx, || au.div_rem(bu_));
    chk_pair(ctx, "BigUint div_rem", &args, x, &q, &r);
    if !full {
        return;
    }
    let x = call(ctx, || {
        let mut t = au.clone();
        t /= bu_;
        t
    });
    expect_nat(ctx, "BigUint a/=&b", &args, x, &q);
    let x = call(ctx, || {
        let mut t = au.clone();
        t %= bu_;
        t
    });
    expect_nat(ctx, "BigUint a%=&b", &args, x, &r);
    let x = call(ctx, || au.clone() / bu_);
    expect_nat(ctx, "BigUint a/&b", &args, x, &q);
    let x = call(ctx, || au % bu_.clone());
    expect_nat(ctx, "BigUint &a%b", &args, x, &r);
    let x = call(ctx, || au.div_floor(bu_));
    expect_nat(ctx, "BigUint div_floor", &args, x, &q);
    let x = call(ctx, || au.mod_floor(bu_));
    expect_nat(ctx, "BigUint mod_floor", &args, x, &r);
    let x = call(ctx, || au.div_mod_floor(bu_));
    chk_pair(ctx, "BigUint div_mod_floor", &args, x, &q, &r);
    let qc = if r.is_zero() { q.clone() } else { q.add(&one()) };
    let x = call(ctx, || Integer::div_ceil(au, bu_));
    expect_nat(ctx, "BigUint div_ceil", &args, x, &qc);
    let x = call(ctx, || au.div_euclid(bu_));
    expect_nat(ctx, "BigUint div_euclid", &args, x, &q);
    let x = call(ctx, || au.rem_euclid(bu_));
    expect_nat(ctx, "BigUint rem_euclid", &args, x, &r);
    let x = call(ctx, || Euclid::div_rem_euclid(au, bu_));
    chk_pair(ctx, "BigUint div_rem_euclid", &args, x, &q, &r);
    let x = call(ctx, || au.checked_div(bu_));
    if let Some(v) = some(ctx, "BigUint checked_div", &args, x) {
        expect_nat(ctx, "BigUint checked_div", &args, Out::Ret(v), &q);
    }
    let x = call(ctx, || au.checked_div_euclid(bu_));
    if let Some(v) = some(ctx, "BigUint checked_div_euclid", &args, x) {
        expect_nat(ctx, "BigUint checked_div_euclid", &args, Out::Ret(v), &q);
    }
    let x = call(ctx, || au.checked_rem_euclid(bu_));
    if let Some(v) = some(ctx, "BigUint checked_rem_euclid", &args, x) {
        expect_nat(ctx, "BigUint checked_rem_euclid", &args, Out::Ret(v), &r);
    }
    let x = call(ctx, || CheckedEuclid::checked_div_rem_euclid(au, bu_));
    if let Some(v) = some(ctx, "BigUint checked_div_rem_euclid", &args, x) {
        chk_pair(ctx, "BigUint checked_div_rem_euclid", &args, Out::Ret(v), &q, &r);
    }

    // BigInt: four sign pairs
    let i1 = Int::from_i64(1);
    for (sa, sb) in [(false, false), (false, true), (true, false), (true, true)] {
        let x = if sa { &a.neg } else { &a.pos };
        let y = if sb { &b.neg } else { &b.pos };
        let yi = Int::new(sb, b.n.clone());
        // truncation: q has sign sa^sb, r has the sign of a
        let tq = Int::new(sa != sb, q.clone());
        let tr = Int::new(sa, r.clone());
        // floor: r has the sign of b
        let (fq, fr) = if !tr.is_zero() && (tr.neg != yi.neg) { (tq.sub(&i1), tr.add(&yi)) } else { (tq.clone(), tr.clone()) };
        // euclid: 0 <= r < |b|
        let (eq, er) = if tr.neg {
            if yi.neg {
                (tq.add(&i1), tr.sub(&yi))
            } else {
                (tq.sub(&i1), tr.add(&yi))
            }
        } else {
            (tq.clone(), tr.clone())
        };
        // ceil
        let cq = if fr.is_zero() { fq.clone() } else { fq.add(&i1) };
        let iargs = || vec![format!("x={}{}", if sa { "-" } else { "" }, a.n.to_hex()), format!("y={}{}", if sb { "-" } else { "" }, b.n.to_hex())];
        if ctx.worker == 0 {
            let xi = Int::new(sa, a.n.clone());
            ctx.tr(|| format!("sdiv trunc {} {} {} {}", xi.to_hex(), yi.to_hex(), tq.to_hex(), tr.to_hex()));
            ctx.tr(|| format!("sdiv floor {} {} {} {}", xi.to_hex(), yi.to_hex(), fq.to_hex(), fr.to_hex()));
            ctx.tr(|| format!("sdiv euclid {} {} {} {}", xi.to_hex(), yi.to_hex(), eq.to_hex(), er.to_hex()));
            ctx.tr(|| format!("sdiv ceil {} {} {} 0", xi.to_hex(), yi.to_hex(), cq.to_hex()));
        }

        let v = call(ctx, || x / y);
        expect_int(ctx, "BigInt &x/&y", &iargs, v, &tq);
        let v = call(ctx, || x % y);
        expect_int(ctx, "BigInt &x%&y", &iargs, v, &tr);
        let v = call(ctx, || x.clone() / y.clone());
        expect_int(ctx, "BigInt x/y", &iargs, v, &tq);
        let v = call(ctx, || x.clone() % y.clone());
        expect_int(ctx, "BigInt x%y", &iargs, v, &tr);
        let v = call(ctx, || {
            let mut t = x.clone();
            t /= y;
            t
        });
        expect_int(ctx, "BigInt x/=&y", &iargs, v, &tq);
        let v = call(ctx, || {
            let mut t = x.clone();
            t %= y;
            t
        });
        expect_int(ctx, "BigInt x%=&y", &iargs, v, &tr);
        let v = call(ctx, || x.div_rem(y));
        chk_ipair(ctx, "BigInt div_rem", &iargs, v, &tq, &tr);
        let v = call(ctx, || x.div_floor(y));
        expect_int(ctx, "BigInt div_floor", &iargs, v, &fq);
        let v = call(ctx, || x.mod_floor(y));
        expect_int(ctx, "BigInt mod_floor", &iargs, v, &fr);
        let v = call(ctx, || x.div_mod_floor(y));
        chk_ipair(ctx, "BigInt div_mod_floor", &iargs, v, &fq, &fr);
        let v = call(ctx, || Integer::div_ceil(x, y));
        expect_int(ctx, "BigInt div_ceil", &iargs, v, &cq);
        let v = call(ctx, || x.div_euclid(y));
        expect_int(ctx, "BigInt div_euclid", &iargs, v, &eq);
        let v = call(ctx, || x.rem_euclid(y));
        expect_int(ctx, "BigInt rem_euclid", &iargs, v, &er);
        let v = call(ctx, || Euclid::div_rem_euclid(x, y));
        chk_ipair(ctx, "BigInt div_rem_euclid", &iargs, v, &eq, &er);
        let v = call(ctx, || x.checked_div(y));
        if let Some(w) = some(ctx, "BigInt checked_div", &iargs, v) {
            expect_int(ctx, "BigInt checked_div", &iargs, Out::Ret(w), &tq);
        }
        let v = call(ctx, || num_traits::CheckedDiv::checked_div(x, y));
        if let Some(w) = some(ctx, "CheckedDiv for BigInt", &iargs, v) {
            expect_int(ctx, "CheckedDiv for BigInt", &iargs, Out::Ret(w), &tq);
        }
        let v = call(ctx, || x.checked_div_euclid(y));
        if let Some(w) = some(ctx, "BigInt checked_div_euclid", &iargs, v) {
            expect_int(ctx, "BigInt checked_div_euclid", &iargs, Out::Ret(w), &eq);
        }
        let v = call(ctx, || x.checked_rem_euclid(y));
        if let Some(w) = some(ctx, "BigInt checked_rem_euclid", &iargs, v) {
            expect_int(ctx, "BigInt checked_rem_euclid", &iargs, Out::Ret(w), &er);
        }
        let v = call(ctx, || CheckedEuclid::checked_div_rem_euclid(x, y));
        if let Some(w) = some(ctx, "BigInt checked_div_rem_euclid", &iargs, v) {
            chk_ipair(ctx, "BigInt checked_div_rem_euclid", &iargs, Out::Ret(w), &eq, &er);
        }
    }
}

fn product(ctx: &mut Ctx, name: &str, dividends: &[Op], divisors: &[Op], full: bool) {
    if !ctx.space(name) {
        return;
    }
    for (i, a) in dividends.iter().enumerate() {
        if !ctx.mine(i as u64) {
            continue;
        }
        for (j, b) in divisors.iter().enumerate() {
            if b.n.is_zero() {
                continue;
            }
            ctx.inner(j as u64);
            div_pair(ctx, a, b, full);
        }
        ctx.sample(|| format!("a={} / every divisor of the family ({} divisors), {}", a.n.to_hex(), divisors.len(), if full { "all APIs, 4 sign pairs" } else { "core BigUint forms" }));
    }
}

fn zero_divisor(ctx: &mut Ctx) {
    if !ctx.space("D5") {
        return;
    }
    let pool = alpha::pool_mags();
    let z = BigUint::ZERO;
    let zi = BigInt::ZERO;
    for (i, d) in pool.iter().enumerate() {
        if !ctx.mine(i as u64) {
            continue;
        }
        ctx.case();
        ctx.nontrivial(1);
        let a = mk(d);
        let args = || vec![format!("a={}", a.n.to_hex()), "b=0".to_string()];
        let au = &a.u;
        macro_rules! p {
            ($name:expr, $e:expr) => {{
                let r = call(ctx, || $e);
                expect_panic(ctx, $name, &args, r);
            }};
        }
        macro_rules! n {
            ($name:expr, $e:expr) => {{
                let r = call(ctx, || $e);
                expect_none(ctx, $name, &args, r);
            }};
        }
        p!("BigUint &a/&0", au / &z);
        p!("BigUint &a%&0", au % &z);
        p!("BigUint a/0", au.clone() / z.clone());
        p!("BigUint a%0", au.clone() % z.clone());
        p!("BigUint a/=&0", {
            let mut t = au.clone();
            t /= &z;
            t
        });
        p!("BigUint a%=&0", {
            let mut t = au.clone();
            t %= &z;
            t
        });
        p!("BigUint div_rem 0", au.div_rem(&z));
        p!("BigUint div_floor 0", au.div_floor(&z));
        p!("BigUint mod_floor 0", au.mod_floor(&z));
        p!("BigUint div_mod_floor 0", au.div_mod_floor(&z));
        p!("BigUint div_ceil 0", Integer::div_ceil(au, &z));
        p!("BigUint div_euclid 0", au.div_euclid(&z));
        p!("BigUint rem_euclid 0", au.rem_euclid(&z));
        p!("BigUint div_rem_euclid 0", Euclid::div_rem_euclid(au, &z));
        p!("BigUint a/0u32", au.clone() / 0u32);
        p!("BigUint a%0u32", au.clone() % 0u32);
        p!("BigUint a/0u64", au.clone() / 0u64);
        p!("BigUint a%0u64", au.clone() % 0u64);
        p!("BigUint a/0u128", au.clone() / 0u128);
        p!("BigUint a%0u128", au.clone() % 0u128);
        p!("BigUint 5u32/0", 5u32 / z.clone());
        p!("BigUint 5u64%0", 5u64 % z.clone());
        p!("BigUint 5u128/0", 5u128 / z.clone());
        n!("BigUint checked_div 0", au.checked_div(&z));
        n!("BigUint checked_div_euclid 0", au.checked_div_euclid(&z));
        n!("BigUint checked_rem_euclid 0", au.checked_rem_euclid(&z));
        n!("BigUint checked_div_rem_euclid 0", CheckedEuclid::checked_div_rem_euclid(au, &z));
        for x in [&a.pos, &a.neg] {
            let args = || vec![format!("x={:x}", x), "y=0".to_string()];
            macro_rules! p {
                ($name:expr, $e:expr) => {{
                    let r = call(ctx, || $e);
                    expect_panic(ctx, $name, &args, r);
                }};
            }
            macro_rules! n {
                ($name:expr, $e:expr) => {{
                    let r = call(ctx, || $e);
                    expect_none(ctx, $name, &args, r);
                }};
            }
            p!("BigInt &x/&0", x / &zi);
            p!("BigInt &x%&0", x % &zi);
            p!("BigInt x/0", x.clone() / zi.clone());
            p!("BigInt x%0", x.clone() % zi.clone());
            p!("BigInt x/=&0", {
                let mut t = x.clone();
                t /= &zi;
                t
            });
            p!("BigInt x%=&0", {
                let mut t = x.clone();
                t %= &zi;
                t
            });
            p!("BigInt div_rem 0", x.div_rem(&zi));
            p!("BigInt div_floor 0", x.div_floor(&zi));
            p!("BigInt mod_floor 0", x.mod_floor(&zi));
            p!("BigInt div_mod_floor 0", x.div_mod_floor(&zi));
            p!("BigInt div_ceil 0", Integer::div_ceil(x, &zi));
            p!("BigInt div_euclid 0", x.div_euclid(&zi));
            p!("BigInt rem_euclid 0", x.rem_euclid(&zi));
            p!("BigInt div_rem_euclid 0", Euclid::div_rem_euclid(x, &zi));
            p!("BigInt x/0i32", x.clone() / 0i32);
            p!("BigInt x%0i64", x.clone() % 0i64);
            p!("BigInt x/0u128", x.clone() / 0u128);
            p!("BigInt 5i32/0", 5i32 / zi.clone());
            p!("BigInt -5i64%0", -5i64 % zi.clone());
            n!("BigInt checked_div 0", x.checked_div(&zi));
            n!("CheckedDiv for BigInt 0", num_traits::CheckedDiv::checked_div(x, &zi));
            n!("BigInt checked_div_euclid 0", x.checked_div_euclid(&zi));
            n!("BigInt checked_rem_euclid 0", x.checked_rem_euclid(&zi));
            n!("BigInt checked_div_rem_euclid 0", CheckedEuclid::checked_div_rem_euclid(x, &zi));
        }
        ctx.sample(|| format!("a={} with zero divisor through every division API (must panic / None)", a.n.to_hex()));
    }
}

fn scalar_forms(ctx: &mut Ctx) {
    if !ctx.space("D6") {
        return;
    }
    let bigs: Vec<Op> = alpha::dense(&alpha::SIGMA8, 3).iter().map(|d| mk(d)).collect();
    let scal = alpha::scal_u64();
    for (i, b) in bigs.iter().enumerate() {
        if !ctx.mine(i as u64) {
            continue;
        }
        for &s in &scal {
            ctx.case();
            let sn = Nat::from_u64(s);
            let args = || vec![format!("big={}", b.n.to_hex()), format!("s={:x}", s)];
            // big / scalar, big % scalar
            if s != 0 {
                let (q, r) = b.n.divrem(&sn);
                ctx.nontrivial(1);
                let x = call(ctx, || &b.u / s);
                expect_nat(ctx, "BigUint &a/u64", &args, x, &q);
                let x = call(ctx, || &b.u % s);
                expect_nat(ctx, "BigUint &a%u64", &args, x, &r);
                let x = call(ctx, || {
                    let mut t = b.u.clone();
                    t /= s;
                    t
                });
                expect_nat(ctx, "BigUint a/=u64", &args, x, &q);
                let x = call(ctx, || {
                    let mut t = b.u.clone();
                    t %= s;
                    t
                });
                expect_nat(ctx, "BigUint a%=u64", &args, x, &r);
                let x = call(ctx, || &b.u / (s as u128));
                expect_nat(ctx, "BigUint &a/u128", &args, x, &q);
                let x = call(ctx, || &b.u % (s as u128));
                expect_nat(ctx, "BigUint &a%u128", &args, x, &r);
                if s <= u32::MAX as u64 {
                    let x = call(ctx, || &b.u / (s as u32));
                    expect_nat(ctx, "BigUint &a/u32", &args, x, &q);
                    let x = call(ctx, || &b.u % (s as u32));
                    expect_nat(ctx, "BigUint &a%u32", &args, x, &r);
                    let x = call(ctx, || {
                        let mut t = b.u.clone();
                        t /= s as u32;
                        t
                    });
                    expect_nat(ctx, "BigUint a/=u32", &args, x, &q);
                    let x = call(ctx, || {
                        let mut t = b.u.clone();
                        t %= s as u32;
                        t
                    });
                    expect_nat(ctx, "BigUint a%=u32", &args, x, &r);
                }
                // two-digit scalar
                let t2 = ((s as u128) << 64) | 0x8000_0000_0000_0001u128;
                let (q2, r2) = b.n.divrem(&Nat::from_u128(t2));
                let x = call(ctx, || &b.u / t2);
                expect_nat(ctx, "BigUint &a/u128(2 digits)", &args, x, &q2);
                let x = call(ctx, || &b.u % t2);
                expect_nat(ctx, "BigUint &a%u128(2 digits)", &args, x, &r2);
            }
            // scalar / big, scalar % big
            if !b.n.is_zero() {
                let (q, r) = sn.divrem(&b.n);
                let x = call(ctx, || s / &b.u);
                expect_nat(ctx, "BigUint u64/&b", &args, x, &q);
                let x = call(ctx, || s % &b.u);
                expect_nat(ctx, "BigUint u64%&b", &args, x, &r);
                let x = call(ctx, || (s as u128) / b.u.clone());
                expect_nat(ctx, "BigUint u128/b", &args, x, &q);
                let x = call(ctx, || (s as u128) % b.u.clone());
                expect_nat(ctx, "BigUint u128%b", &args, x, &r);
                let x = call(ctx, || {
                    let mut t = s;
                    t %= &b.u;
                    BigUint::from(t)
                });
                expect_nat(ctx, "u64 %= &BigUint", &args, x, &r);
                if s <= u32::MAX as u64 {
                    let x = call(ctx, || (s as u32) / &b.u);
                    expect_nat(ctx, "BigUint u32/&b", &args, x, &q);
                    let x = call(ctx, || (s as u32) % &b.u);
                    expect_nat(ctx, "BigUint u32%&b", &args, x, &r);
                }
                let t2 = ((s as u128) << 64) | 0x8000_0000_0000_0001u128;
                let (q2, r2) = Nat::from_u128(t2).divrem(&b.n);
                let x = call(ctx, || t2 / &b.u);
                expect_nat(ctx, "BigUint u128(2 digits)/&b", &args, x, &q2);
                let x = call(ctx, || t2 % &b.u);
                expect_nat(ctx, "BigUint u128(2 digits)%&b", &args, x, &r2);
            }
        }
        // BigInt with signed scalars on either side (truncating convention), i32 / i64 / i128
        for &s in &scal {
            for (sb, x) in [(false, &b.pos), (true, &b.neg)] {
                let xi = Int::new(sb, b.n.clone());
                for ts in [s as i128, -(s as i128), ((s as i128) << 63) | 5, -(((s as i128) << 63) | 5)] {
                    ctx.case();
                    let ti = Int::from_i128(ts);
                    let iargs = || vec![format!("x={}", xi.to_hex()), format!("s={}", ts)];
                    if ts != 0 {
                        ctx.nontrivial(1);
                        let (q, r) = xi.divrem_trunc(&ti);
                        let v = call(ctx, || x / ts);
                        expect_int(ctx, "BigInt &x/i128", &iargs, v, &q);
                        let v = call(ctx, || x % ts);
                        expect_int(ctx, "BigInt &x%i128", &iargs, v, &r);
                        let v = call(ctx, || {
                            let mut t = x.clone();
                            t /= ts;
                            t
                        });
                        expect_int(ctx, "BigInt x/=i128", &iargs, v, &q);
                        let v = call(ctx, || {
                            let mut t = x.clone();
                            t %= ts;
                            t
                        });
                        expect_int(ctx, "BigInt x%=i128", &iargs, v, &r);
                        if let Ok(t64) = i64::try_from(ts) {
                            let v = call(ctx, || x / t64);
                            expect_int(ctx, "BigInt &x/i64", &iargs, v, &q);
                            let v = call(ctx, || x.clone() % t64);
                            expect_int(ctx, "BigInt x%i64", &iargs, v, &r);
                            if let Ok(t32) = i32::try_from(ts) {
                                let v = call(ctx, || x / t32);
                                expect_int(ctx, "BigInt &x/i32", &iargs, v, &q);
                                let v = call(ctx, || x % t32);
                                expect_int(ctx, "BigInt &x%i32", &iargs, v, &r);
                            }
                        }
                    }
                    if !xi.is_zero() {
                        let (q, r) = ti.divrem_trunc(&xi);
                        let v = call(ctx, || ts / x);
                        expect_int(ctx, "BigInt i128/&x", &iargs, v, &q);
                        let v = call(ctx, || ts % x);
                        expect_int(ctx, "BigInt i128%&x", &iargs, v, &r);
                        if let Ok(t64) = i64::try_from(ts) {
                            let v = call(ctx, || t64 / x.clone());
                            expect_int(ctx, "BigInt i64/x", &iargs, v, &q);
                            let v = call(ctx, || t64 % x);
                            expect_int(ctx, "BigInt i64%&x", &iargs, v, &r);
                            if let Ok(t32) = i32::try_from(ts) {
                                let v = call(ctx, || t32 / x);
                                expect_int(ctx, "BigInt i32/&x", &iargs, v, &q);
                                let v = call(ctx, || t32 % x);
                                expect_int(ctx, "BigInt i32%&x", &iargs, v, &r);
                            }
                        }
                    }
                }
            }
        }
        ctx.sample(|| format!("big={} with every scalar of the scalar alphabet on either side", b.n.to_hex()));
    }
}

fn body(ctx: &mut Ctx) {
    let tier = ctx.tier;
    ctx.set_transcript_every(tier.pick(53, 2003));
    // D1
    {
        let a: Vec<Op> = alpha::dense(&alpha::SIGMA8, 4).iter().map(|d| mk(d)).collect();
        let b: Vec<Op> = alpha::dense(&alpha::SIGMA8, 3).iter().map(|d| mk(d)).collect();
        product(ctx, "D1", &a, &b, true);
        if tier == Tier::Thorough {
            let b4: Vec<Op> = alpha::dense(&alpha::SIGMA8, 4).into_iter().filter(|d| d.len() == 4).map(|d| mk(&d)).collect();
            product(ctx, "D1-4x4", &a, &b4, true);
            let a5: Vec<Op> = alpha::dense(&alpha::SIGMA8, 5).into_iter().filter(|d| d.len() == 5).map(|d| mk(&d)).collect();
            product(ctx, "D1-5x3", &a5, &b, false);
        }
    }
    // D2: every normalisation shift
    {
        let mut tops: Vec<u64> = Vec::new();
        for k in 0..64u32 {
            for t in [1u64 << k, (1u64 << k).wrapping_add(1), if k == 63 { u64::MAX } else { (1u64 << (k + 1)) - 1 }] {
                if t != 0 && !tops.contains(&t) {
                    tops.push(t);
                }
            }
        }
        let mut divisors = Vec::new();
        for &t in &tops {
            for &l0 in &alpha::SIGMA5 {
                divisors.push(mk(&[l0, t]));
                {
                    for &l1 in &alpha::SIGMA5 {
                        divisors.push(mk(&[l1, l0, t]));
                    }
                }
            }
        }
        let dividends: Vec<Op> = alpha::dense(&alpha::SIGMA5, 4).iter().map(|d| mk(d)).collect();
        product(ctx, "D2", &dividends, &divisors, false);
    }
    // D3: long operands
    {
        let (a, b): (Vec<Op>, Vec<Op>) = match tier {
            Tier::Quick => (alpha::runs(&alpha::SIGMA8, 2, 12).iter().map(|d| mk(d)).collect(), alpha::runs(&alpha::SIGMA8, 2, 6).iter().map(|d| mk(d)).collect()),
            Tier::Thorough => (alpha::runs(&alpha::SIGMA8, 3, 12).iter().map(|d| mk(d)).collect(), alpha::runs(&alpha::SIGMA8, 2, 8).iter().map(|d| mk(d)).collect()),
        };
        product(ctx, "D3", &a, &b, false);
    }
    // D8: the in-place / owning forms on operands whose buffer has spare capacity
    if ctx.space("D8") {
        let mut av: Vec<Vec<u64>> = alpha::dense(&alpha::SIGMA5, 3);
        let mut bv: Vec<Vec<u64>> = alpha::dense(&alpha::SIGMA5, 2);
        for l in 3..=tier.pick(12usize, 20usize) {
            av.push(alpha::lcg_digits(l, 5));
            av.push(vec![alpha::M; l]);
            if l <= 8 {
                bv.push(alpha::lcg_digits(l, 6));
                let mut v = vec![0u64; l];
                v[l - 1] = alpha::H;
                bv.push(v);
            }
        }
        let a: Vec<Op> = av.iter().map(|d| mk(d)).collect();
        let b: Vec<Op> = bv.iter().filter(|d| !d.is_empty()).map(|d| mk(d)).collect();
        for (i, x) in a.iter().enumerate() {
            if !ctx.mine(i as u64) {
                continue;
            }
            for (j, y) in b.iter().enumerate() {
                ctx.inner(j as u64);
                ctx.case();
                let need = x.n.len() + y.n.len() + 3;
                let (q, r) = x.n.divrem(&y.n);
                let (_, cap) = with_slack(&x.u, need);
                if cap >= need {
                    ctx.goal("dividend with spare capacity");
                    if y.n.len() >= 2 && y.n.lt(&x.n) {
                        ctx.nontrivial(1);
                    }
                }
                let args = || vec![format!("a={}", x.n.to_hex()), format!("b={}", y.n.to_hex()), format!("capacity a={}", cap)];
                let g = call(ctx, || {
                    let mut t = with_slack(&x.u, need).0;
                    t /= &y.u;
                    t
                });
                expect_nat(ctx, "BigUint slack a/=&b", &args, g, &q);
                let g = call(ctx, || {
                    let mut t = with_slack(&x.u, need).0;
                    t %= &y.u;
                    t
                });
                expect_nat(ctx, "BigUint slack a%=&b", &args, g, &r);
                let g = call(ctx, || {
                    let mut t = with_slack(&x.u, need).0;
                    t /= with_slack(&y.u, need).0;
                    t
                });
                expect_nat(ctx, "BigUint slack a/=slack b", &args, g, &q);
                let g = call(ctx, || with_slack(&x.u, need).0 / with_slack(&y.u, need).0);
                expect_nat(ctx, "BigUint slack a/slack b", &args, g, &q);
                let g = call(ctx, || with_slack(&x.u, need).0 % &y.u);
                expect_nat(ctx, "BigUint slack a%&b", &args, g, &r);
                let g = call(ctx, || &x.u % with_slack(&y.u, need).0);
                expect_nat(ctx, "BigUint &a%slack b", &args, g, &r);
                let g = call(ctx, || with_slack(&x.u, need).0.div_rem(&with_slack(&y.u, need).0));
                chk_pair(ctx, "BigUint slack div_rem", &args, g, &q, &r);
                // BigInt, truncating convention: -a / b = -(a/b), -a % b = -(a%b)
                let g = call(ctx, || {
                    let mut t = -BigInt::from(with_slack(&x.u, need).0);
                    t /= BigInt::from(y.u.clone());
                    t
                });
                expect_int(ctx, "BigInt slack -a/=b", &args, g, &Int::new(true, q.clone()));
                let g = call(ctx, || {
                    let mut t = -BigInt::from(with_slack(&x.u, need).0);
                    t %= &-BigInt::from(y.u.clone());
                    t
                });
                expect_int(ctx, "BigInt slack -a%=&-b", &args, g, &Int::new(true, r.clone()));
            }
            ctx.sample(|| format!("a={} (and every divisor) with spare-capacity buffers: /= %= and the owning / % div_rem forms", x.n.to_hex()));
        }
    }
    // D4: constructed trial-quotient boundary cases
    if ctx.space("D4") {
        let vs: Vec<Vec<u64>> = alpha::dense(&alpha::SIGMA8, 3).into_iter().filter(|d| d.len() >= 2 && d[d.len() - 1] >> 63 == 1).collect();
        let qs = alpha::dense(&alpha::SIGMA8, 2);
        for (i, vd) in vs.iter().enumerate() {
            if !ctx.mine(i as u64) {
                continue;
            }
            let v = mk(vd);
            let vm1 = v.n.sub(&one()).unwrap();
            let mut j = 0;
            for qd in &qs {
                let qn = Nat::from_digits(qd);
                for r in [Nat::zero(), one(), vm1.clone()] {
                    for sh in 0..3u64 {
                        ctx.inner(j);
                        j += 1;
                        // dividend = (q*v + r) * 2^(64*sh) + (sh>0 ? low pattern : 0)
                        let mut dvd = qn.mul(&v.n).add(&r).shl(64 * sh);
                        if sh > 0 {
                            dvd = dvd.add(&Nat::from_digits(&vec![alpha::M; sh as usize]));
                        }
                        let a = mk(dvd.digits());
                        div_pair(ctx, &a, &v, true);
                    }
                }
            }
            ctx.sample(|| format!("v={} (normalised), dividends q*v+r for q in Dense(S8,2), r in {{0,1,v-1}}, shifted by 0..2 digits", v.n.to_hex()));
        }
        // unnormalised versions of the same divisors: shift both by 1..63 bits would change digits; instead
        // divide every normalised v by 2 and 2^31 (top bit clear) with the same quotient family
    }
    // D7: dense LCG digits; the family's top digits cover many normalisation shifts
    if ctx.space("D7") {
        let (la_max, lb_max) = tier.pick((24usize, 12usize), (48, 24));
        let mut o = 0u64;
        for la in 1..=la_max {
            for lb in 1..=lb_max.min(la) {
                let take = ctx.mine(o);
                o += 1;
                if !take {
                    continue;
                }
                for sa in 0..tier.pick(3u64, 6u64) {
                    for sb in 0..tier.pick(10u64, 28u64) {
                        let a = mk(&alpha::lcg_digits(la, 100 + sa));
                        let b = mk(&alpha::lcg_digits(lb, sb));
                        div_pair(ctx, &a, &b, la <= 8 || (sa == 0 && sb == 0));
                    }
                }
                ctx.sample(|| format!("dense LCG digits: len(a)={} len(b)={} x 3 dividends x 10 divisors (top digit shifted by 0,7,...,63 bits)", la, lb));
            }
        }
    }
    // D10: half-digit value structure: Dense(S16,3) x Dense(S16,2)
    {
        let a: Vec<Op> = alpha::dense(&alpha::SIGMA16, 3).iter().map(|d| mk(d)).collect();
        let b: Vec<Op> = alpha::dense(&alpha::SIGMA16, 2).iter().map(|d| mk(d)).collect();
        product(ctx, "D10", &a, &b, false);
    }
    // D6c: the full scalar matrix: every primitive type x its extreme values as divisor and as dividend, / % /= %=, BigInt of
    // both signs (truncating convention) and BigUint; a zero divisor must panic
    if ctx.space("D6c") {
        let mags: Vec<Vec<u64>> = vec![vec![], vec![1], vec![2], vec![0xffff_ffff], vec![alpha::H - 1], vec![alpha::H], vec![alpha::H + 1], vec![alpha::M], vec![0, 1], vec![alpha::M, alpha::H - 1], vec![alpha::M, alpha::M], vec![1, 0, 1], alpha::lcg_digits(5, 9)];
        let edge: Vec<i128> = vec![0, 1, 2, -1, -2, 127, 128, -128, 255, 256, 32767, -32768, 65535, 65536, (1 << 31) - 1, 1 << 31, -(1 << 31), (1 << 32) - 1, 1 << 32, (1 << 63) - 1, 1 << 63, -(1 << 63), -(1 << 63) - 1, (1 << 64) - 1, 1 << 64, (1 << 64) + 1, -(1 << 64), i128::MAX, i128::MIN, i128::MIN + 1];
        macro_rules! scalar_int {
            ($T:ty, $tn:expr, $x:expr, $xi:expr, $t:expr) => {{
                if let Ok(t) = <$T>::try_from($t) {
                    let ti = Int::from_i128($t);
                    let args = || vec![format!("x={}", $xi.to_hex()), format!("s={} ({})", $t, $tn)];
                    if $t != 0 {
                        let (q, r) = $xi.divrem_trunc(&ti);
                        let v = call(ctx, || $x / t);
                        expect_int(ctx, concat!("BigInt &x/", $tn), &args, v, &q);
                        let v = call(ctx, || $x % t);
                        expect_int(ctx, concat!("BigInt &x%", $tn), &args, v, &r);
                        let v = call(ctx, || $x.clone() / t);
                        expect_int(ctx, concat!("BigInt x/", $tn), &args, v, &q);
                        let v = call(ctx, || $x.clone() % t);
                        expect_int(ctx, concat!("BigInt x%", $tn), &args, v, &r);
                        let v = call(ctx, || {
                            let mut y = $x.clone();
                            y /= t;
                            y
                        });
                        expect_int(ctx, concat!("BigInt x/=", $tn), &args, v, &q);
                        let v = call(ctx, || {
                            let mut y = $x.clone();
                            y %= t;
                            y
                        });
                        expect_int(ctx, concat!("BigInt x%=", $tn), &args, v, &r);
                    } else {
                        let v = call(ctx, || $x / t);
                        expect_panic(ctx, concat!("BigInt &x/0", $tn), &args, v);
                        let v = call(ctx, || $x % t);
                        expect_panic(ctx, concat!("BigInt &x%0", $tn), &args, v);
                    }
                    if !$xi.is_zero() {
                        let (q, r) = ti.divrem_trunc($xi);
                        let v = call(ctx, || t / $x);
                        expect_int(ctx, concat!("BigInt ", $tn, "/&x"), &args, v, &q);
                        let v = call(ctx, || t % $x);
                        expect_int(ctx, concat!("BigInt ", $tn, "%&x"), &args, v, &r);
                        let v = call(ctx, || t / $x.clone());
                        expect_int(ctx, concat!("BigInt ", $tn, "/x"), &args, v, &q);
                    } else {
                        let v = call(ctx, || t / $x);
                        expect_panic(ctx, concat!("BigInt ", $tn, "/&0"), &args, v);
                        let v = call(ctx, || t % $x);
                        expect_panic(ctx, concat!("BigInt ", $tn, "%&0"), &args, v);
                    }
                }
            }};
        }
        macro_rules! scalar_uint {
            ($T:ty, $tn:expr, $u:expr, $un:expr, $t:expr) => {{
                if let Ok(t) = <$T>::try_from($t) {
                    let tn = Nat::from_u128($t as u128);
                    let args = || vec![format!("a={}", $un.to_hex()), format!("s={} ({})", $t, $tn)];
                    if $t != 0 {
                        let (q, r) = $un.divrem(&tn);
                        let v = call(ctx, || $u / t);
                        expect_nat(ctx, concat!("BigUint &a/", $tn), &args, v, &q);
                        let v = call(ctx, || $u % t);
                        expect_nat(ctx, concat!("BigUint &a%", $tn), &args, v, &r);
                        let v = call(ctx, || {
                            let mut y = $u.clone();
                            y /= t;
                            y
                        });
                        expect_nat(ctx, concat!("BigUint a/=", $tn), &args, v, &q);
                        let v = call(ctx, || {
                            let mut y = $u.clone();
                            y %= t;
                            y
                        });
                        expect_nat(ctx, concat!("BigUint a%=", $tn), &args, v, &r);
                    } else {
                        let v = call(ctx, || $u / t);
                        expect_panic(ctx, concat!("BigUint &a/0", $tn), &args, v);
                        let v = call(ctx, || $u.clone() % t);
                        expect_panic(ctx, concat!("BigUint a%0", $tn), &args, v);
                        let v = call(ctx, || {
                            let mut y = $u.clone();
                            y /= t;
                            y
                        });
                        expect_panic(ctx, concat!("BigUint a/=0", $tn), &args, v);
                    }
                    if !$un.is_zero() {
                        let (q, r) = tn.divrem($un);
                        let v = call(ctx, || t / $u);
                        expect_nat(ctx, concat!("BigUint ", $tn, "/&a"), &args, v, &q);
                        let v = call(ctx, || t % $u.clone());
                        expect_nat(ctx, concat!("BigUint ", $tn, "%a"), &args, v, &r);
                    } else {
                        let v = call(ctx, || t / $u);
                        expect_panic(ctx, concat!("BigUint ", $tn, "/&0"), &args, v);
                        let v = call(ctx, || t % $u);
                        expect_panic(ctx, concat!("BigUint ", $tn, "%&0"), &args, v);
                    }
                }
            }};
        }
        for (i, d) in mags.iter().enumerate() {
            if !ctx.mine(i as u64) {
                continue;
            }
            let un = Nat::from_digits(d);
            let u = bu_nat(&un);
            for neg in [false, true] {
                let xi = Int::new(neg, un.clone());
                let x = BigInt::from_biguint(if xi.is_zero() { Sign::NoSign } else if neg { Sign::Minus } else { Sign::Plus }, u.clone());
                for &t in &edge {
                    ctx.case();
                    ctx.nontrivial(1);
                    scalar_int!(i8, "i8", &x, &xi, t);
                    scalar_int!(i16, "i16", &x, &xi, t);
                    scalar_int!(i32, "i32", &x, &xi, t);
                    scalar_int!(i64, "i64", &x, &xi, t);
                    scalar_int!(i128, "i128", &x, &xi, t);
                    scalar_int!(isize, "isize", &x, &xi, t);
                    scalar_int!(u8, "u8", &x, &xi, t);
                    scalar_int!(u16, "u16", &x, &xi, t);
                    scalar_int!(u32, "u32", &x, &xi, t);
                    scalar_int!(u64, "u64", &x, &xi, t);
                    scalar_int!(u128, "u128", &x, &xi, t);
                    scalar_int!(usize, "usize", &x, &xi, t);
                    if !neg && t >= 0 {
                        scalar_uint!(u8, "u8", &u, &un, t);
                        scalar_uint!(u16, "u16", &u, &un, t);
                        scalar_uint!(u32, "u32", &u, &un, t);
                        scalar_uint!(u64, "u64", &u, &un, t);
                        scalar_uint!(u128, "u128", &u, &un, t);
                        scalar_uint!(usize, "usize", &u, &un, t);
                    }
                }
            }
            ctx.sample(|| format!("|x|={} (both signs) x {} edge scalars x 12 primitive types as divisor and dividend: / % /= %=, zero divisors must panic", un.to_hex(), edge.len()));
        }
    }
    // D6b: every 2^k-1, 2^k, 2^k+1 (k < 128) as u128 / i128 scalar divisor and dividend
    if ctx.space("D6b") {
        let mut bigs: Vec<Vec<u64>> = alpha::dense(&alpha::SIGMA5, 3);
        bigs.push(alpha::lcg_digits(5, 1));
        bigs.push(vec![alpha::M; 4]);
        for (i, d) in bigs.iter().enumerate() {
            if !ctx.mine(i as u64) {
                continue;
            }
            let b = mk(d);
            let bi = BigInt::from(b.u.clone());
            for k in 0..128u32 {
                ctx.inner(k as u64);
                for t in [(1u128 << k) - 1, 1u128 << k, (1u128 << k).wrapping_add(1)] {
                    ctx.case();
                    let tn = Nat::from_u128(t);
                    let args = || vec![format!("big={}", b.n.to_hex()), format!("s={:x}", t)];
                    if t != 0 {
                        ctx.nontrivial(1);
                        let (q, r) = b.n.divrem(&tn);
                        let x = call(ctx, || &b.u / t);
                        expect_nat(ctx, "BigUint &a/u128", &args, x, &q);
                        let x = call(ctx, || &b.u % t);
                        expect_nat(ctx, "BigUint &a%u128", &args, x, &r);
                        let x = call(ctx, || {
                            let mut y = b.u.clone();
                            y /= t;
                            y
                        });
                        expect_nat(ctx, "BigUint a/=u128", &args, x, &q);
                        let x = call(ctx, || {
                            let mut y = b.u.clone();
                            y %= t;
                            y
                        });
                        expect_nat(ctx, "BigUint a%=u128", &args, x, &r);
                        if let Ok(ti) = i128::try_from(t) {
                            // truncating convention: (-a) / (-t) = q, (-a) % (-t) = -r
                            let x = call(ctx, || -&bi / -ti);
                            expect_int(ctx, "BigInt -a/-i128", &args, x, &Int::from_nat(q.clone()));
                            let x = call(ctx, || -&bi % -ti);
                            expect_int(ctx, "BigInt -a%-i128", &args, x, &Int::new(true, r.clone()));
                        }
                        if let Ok(t64) = u64::try_from(t) {
                            let x = call(ctx, || b.u.clone() / t64);
                            expect_nat(ctx, "BigUint a/u64", &args, x, &q);
                            let x = call(ctx, || &b.u % t64);
                            expect_nat(ctx, "BigUint &a%u64", &args, x, &r);
                        }
                    }
                    if !b.n.is_zero() {
                        let (q, r) = tn.divrem(&b.n);
                        let x = call(ctx, || t / &b.u);
                        expect_nat(ctx, "BigUint u128/&a", &args, x, &q);
                        let x = call(ctx, || t % &b.u);
                        expect_nat(ctx, "BigUint u128%&a", &args, x, &r);
                    }
                }
            }
            ctx.sample(|| format!("big={} with every 2^k-1, 2^k, 2^k+1 (k<128) as u128 / i128 / u64 scalar on either side", b.n.to_hex()));
        }
    }
    // D9: long operands -- quotients and divisors of more than a thousand digits
    if ctx.space("D9") {
        let shapes: Vec<(usize, usize)> = tier.pick(vec![(300, 100), (1100, 3), (1100, 1), (1100, 1050), (1030, 515), (200, 199)], vec![(300, 100), (1100, 3), (1100, 1), (1100, 1050), (1030, 515), (200, 199), (2100, 1040), (4099, 2), (2050, 2049)]);
        for (o, &(la, lb)) in shapes.iter().enumerate() {
            if !ctx.mine(o as u64) {
                continue;
            }
            let mut divisors = vec![alpha::lcg_digits(lb, 31), vec![alpha::M; lb], {
                let mut v = vec![0u64; lb];
                v[lb - 1] = alpha::H;
                v
            }];
            divisors[0][lb - 1] |= alpha::H;
            let dividends = vec![alpha::lcg_digits(la, 32), vec![alpha::M; la], {
                let mut v = vec![0u64; la];
                v[la - 1] = 1;
                v
            }];
            for a in &dividends {
                for b in &divisors {
                    div_pair(ctx, &mk(a), &mk(b), true);
                }
            }
            ctx.sample(|| format!("{}-digit dividends (dense, all-ones, power of two) by {}-digit divisors (dense, all-ones, 2^(64l-1)): every division API", la, lb));
        }
    }
    zero_divisor(ctx);
    scalar_forms(ctx);
}

fn main() {
    runner::main(SPEC, body)
}
