//! C07 -- bitwise logic, shifts and bit queries follow infinite two's-complement semantics.
use nbmc::*;

const SPEC: Spec = Spec {
    id: "C07",
    engine: "E-prod (exhaustive product enumeration of signed operand pairs, shift amounts x shift types, bit indices; real code vs refint two's complement by explicit sign extension)",
    rule: "every ordered pair of signed values of the stated families through & | ^ in ref/ref, val/ref, val/val and assign forms (BigInt: nine sign combinations; BigUint: non-negative pairs), ! by value and reference; every value x shift amount x each of the 12 primitive shift types x {<<,>>,<<=,>>=, reference amount}; every value x bit index for bit/set_bit; non-trivial = both operands non-zero and at least one negative or multi-digit (logic), shift amount not a multiple of 64 or value negative (shifts), index inside or adjacent to the value's digits (bits)",
    assumptions: &[
        "digit alphabet {0,1,2^63,2^64-2,2^64-1} (and {0,1,2^64-1} run-structured up to 7 digits): two's-complement negation carries depend on zero/all-ones digits, which the alphabet generates",
        "refint two's complement (sign extension to max(len)+1 limbs) is trusted; cross-checked against Python on a transcript slice",
        "shift amounts that would exhaust memory are out of scope (property text); << is exercised with each type's MAX only when it is <= 65535 or the value is zero",
    ],
    bounds_quick: "B1 (+-Dense(S5,3))^2 + (+-Dense(S5,4)) x (+-Dense(S5,2)) both orders; B2 (+-Runs({0,1,M},3,8))^2; B3 +-Dense(S5,3) x 33 amounts (incl. each type's MAX and negative amounts) x 12 types + every amount 0..=200 for u32/i64/u128; B4 +-Dense(S5,4) x indices 0..=330,2^32,2^40 x {bit,set,clear}; B6 long values of 300 and 1100 digits (4 shapes, both signs): all pairs through & | ^, shifts by digit-aligned / huge amounts, bit queries; B7 (+-Dense(S16,2))^2 (16-letter half-digit alphabet)",
    bounds_thorough: "B1 additionally (+-Dense(S5,4))^2 and 4x3 / 3x4; B2 (+-Runs({0,1,M},3,12))^2; B3 every amount 0..=520; B4 indices 0..=400; B6 up to 4099 digits",
    hang_secs: 120,
    probes: None,
    max_workers: 16,
};

struct V {
    i: Int,
    b: BigInt,
    u: Option<BigUint>,
}
fn mkv(neg: bool, d: &[u64]) -> V {
    let i = Int::new(neg, Nat::from_digits(d));
    let b = bi_int(&i);
    let u = if i.neg { None } else { Some(bu_nat(&i.mag)) };
    V { i, b, u }
}
fn signed(set: &[Vec<u64>]) -> Vec<V> {
    let mut out = Vec::new();
    for d in set {
        out.push(mkv(false, d));
        if !d.is_empty() {
            out.push(mkv(true, d));
        }
    }
    out
}

fn logic_pair(ctx: &mut Ctx, a: &V, b: &V) {
    ctx.case();
    if !a.i.is_zero() && !b.i.is_zero() && (a.i.neg || b.i.neg || a.i.mag.len() > 1 || b.i.mag.len() > 1) {
        ctx.nontrivial(1);
    }
    let wa = a.i.and(&b.i);
    let wo = a.i.or(&b.i);
    let wx = a.i.xor(&b.i);
    ctx.tr(|| format!("and {} {} {}", a.i.to_hex(), b.i.to_hex(), wa.to_hex()));
    ctx.tr(|| format!("or {} {} {}", a.i.to_hex(), b.i.to_hex(), wo.to_hex()));
    ctx.tr(|| format!("xor {} {} {}", a.i.to_hex(), b.i.to_hex(), wx.to_hex()));
    ctx.outcome_digits(wx.mag.digits());
    let args = || vec![format!("a={}", a.i.to_hex()), format!("b={}", b.i.to_hex())];
    let (x, y) = (&a.b, &b.b);
    macro_rules! forms {
        ($op:tt, $opa:tt, $name:expr, $want:expr) => {{
            let r = call(ctx, || x $op y);
            expect_int(ctx, concat!("BigInt &a", $name, "&b"), &args, r, $want);
            let r = call(ctx, || x.clone() $op y);
            expect_int(ctx, concat!("BigInt a", $name, "&b"), &args, r, $want);
            let r = call(ctx, || x $op y.clone());
            expect_int(ctx, concat!("BigInt &a", $name, "b"), &args, r, $want);
            let r = call(ctx, || x.clone() $op y.clone());
            expect_int(ctx, concat!("BigInt a", $name, "b"), &args, r, $want);
            let r = call(ctx, || { let mut t = x.clone(); t $opa y; t });
            expect_int(ctx, concat!("BigInt a", $name, "=&b"), &args, r, $want);
            let r = call(ctx, || { let mut t = x.clone(); t $opa y.clone(); t });
            expect_int(ctx, concat!("BigInt a", $name, "=b"), &args, r, $want);
        }};
    }
    forms!(&, &=, "&", &wa);
    forms!(|, |=, "|", &wo);
    forms!(^, ^=, "^", &wx);
    if let (Some(p), Some(q)) = (&a.u, &b.u) {
        macro_rules! uforms {
            ($op:tt, $opa:tt, $name:expr, $want:expr) => {{
                let r = call(ctx, || p $op q);
                expect_nat(ctx, concat!("BigUint &a", $name, "&b"), &args, r, $want);
                let r = call(ctx, || p.clone() $op q);
                expect_nat(ctx, concat!("BigUint a", $name, "&b"), &args, r, $want);
                let r = call(ctx, || p $op q.clone());
                expect_nat(ctx, concat!("BigUint &a", $name, "b"), &args, r, $want);
                let r = call(ctx, || p.clone() $op q.clone());
                expect_nat(ctx, concat!("BigUint a", $name, "b"), &args, r, $want);
                let r = call(ctx, || { let mut t = p.clone(); t $opa q; t });
                expect_nat(ctx, concat!("BigUint a", $name, "=&b"), &args, r, $want);
                let r = call(ctx, || { let mut t = p.clone(); t $opa q.clone(); t });
                expect_nat(ctx, concat!("BigUint a", $name, "=b"), &args, r, $want);
            }};
        }
        uforms!(&, &=, "&", &wa.mag);
        uforms!(|, |=, "|", &wo.mag);
        uforms!(^, ^=, "^", &wx.mag);
    }
}

fn not_value(ctx: &mut Ctx, a: &V) {
    ctx.case();
    let w = a.i.not();
    ctx.tr(|| format!("not {} {}", a.i.to_hex(), w.to_hex()));
    let args = || vec![format!("a={}", a.i.to_hex())];
    let r = call(ctx, || !&a.b);
    expect_int(ctx, "BigInt !&a", &args, r, &w);
    let r = call(ctx, || !a.b.clone());
    expect_int(ctx, "BigInt !a", &args, r, &w);
}

macro_rules! shift_type {
    ($ctx:expr, $v:expr, $k:expr, $T:ty, $tn:expr, $shl_ok:expr) => {{
        let ctx: &mut Ctx = $ctx;
        let v: &V = $v;
        let k: i128 = $k;
        if k >= <$T>::MIN as i128 && k <= <$T>::MAX as i128 {
            let t = k as $T;
            ctx.case();
            let args = || vec![format!("x={}", v.i.to_hex()), format!("k={}{}", k, $tn)];
            if k < 0 {
                ctx.nontrivial(1);
                let r = call(ctx, || &v.b << t);
                expect_panic(ctx, concat!("BigInt &x<<", $tn, " negative"), &args, r);
                let r = call(ctx, || &v.b >> t);
                expect_panic(ctx, concat!("BigInt &x>>", $tn, " negative"), &args, r);
                let r = call(ctx, || { let mut z = v.b.clone(); z <<= t; z });
                expect_panic(ctx, concat!("BigInt x<<=", $tn, " negative"), &args, r);
                let r = call(ctx, || { let mut z = v.b.clone(); z >>= t; z });
                expect_panic(ctx, concat!("BigInt x>>=", $tn, " negative"), &args, r);
                if let Some(u) = &v.u {
                    let r = call(ctx, || u << t);
                    expect_panic(ctx, concat!("BigUint &x<<", $tn, " negative"), &args, r);
                    let r = call(ctx, || u >> t);
                    expect_panic(ctx, concat!("BigUint &x>>", $tn, " negative"), &args, r);
                    let r = call(ctx, || u.clone() << &t);
                    expect_panic(ctx, concat!("BigUint x<<&", $tn, " negative"), &args, r);
                    let r = call(ctx, || { let mut z = u.clone(); z >>= t; z });
                    expect_panic(ctx, concat!("BigUint x>>=", $tn, " negative"), &args, r);
                }
            } else {
                let ku = k as u64;
                if ku % 64 != 0 || v.i.neg {
                    ctx.nontrivial(1);
                }
                // right shifts: any amount
                let wr = if k > (1i128 << 40) { if v.i.neg { Int::from_i64(-1) } else { Int::zero() } } else { v.i.shr_floor(ku) };
                let r = call(ctx, || &v.b >> t);
                expect_int(ctx, concat!("BigInt &x>>", $tn), &args, r, &wr);
                let r = call(ctx, || v.b.clone() >> t);
                expect_int(ctx, concat!("BigInt x>>", $tn), &args, r, &wr);
                let r = call(ctx, || &v.b >> &t);
                expect_int(ctx, concat!("BigInt &x>>&", $tn), &args, r, &wr);
                let r = call(ctx, || { let mut z = v.b.clone(); z >>= t; z });
                expect_int(ctx, concat!("BigInt x>>=", $tn), &args, r, &wr);
                let r = call(ctx, || { let mut z = v.b.clone(); z >>= &t; z });
                expect_int(ctx, concat!("BigInt x>>=&", $tn), &args, r, &wr);
                if let Some(u) = &v.u {
                    let r = call(ctx, || u >> t);
                    expect_nat(ctx, concat!("BigUint &x>>", $tn), &args, r, &wr.mag);
                    let r = call(ctx, || u.clone() >> t);
                    expect_nat(ctx, concat!("BigUint x>>", $tn), &args, r, &wr.mag);
                    let r = call(ctx, || u >> &t);
                    expect_nat(ctx, concat!("BigUint &x>>&", $tn), &args, r, &wr.mag);
                    let r = call(ctx, || { let mut z = u.clone(); z >>= t; z });
                    expect_nat(ctx, concat!("BigUint x>>=", $tn), &args, r, &wr.mag);
                }
                if $shl_ok || v.i.is_zero() {
                    let wl = if v.i.is_zero() { Int::zero() } else { v.i.shl(ku) };
                    if ku <= 1000 {
                        ctx.tr(|| format!("shl {} {} {}", v.i.to_hex(), ku, wl.to_hex()));
                        ctx.tr(|| format!("shr {} {} {}", v.i.to_hex(), ku, wr.to_hex()));
                    }
                    ctx.outcome_digits(wl.mag.digits());
                    let r = call(ctx, || &v.b << t);
                    expect_int(ctx, concat!("BigInt &x<<", $tn), &args, r, &wl);
                    let r = call(ctx, || v.b.clone() << t);
                    expect_int(ctx, concat!("BigInt x<<", $tn), &args, r, &wl);
                    let r = call(ctx, || v.b.clone() << &t);
                    expect_int(ctx, concat!("BigInt x<<&", $tn), &args, r, &wl);
                    let r = call(ctx, || { let mut z = v.b.clone(); z <<= t; z });
                    expect_int(ctx, concat!("BigInt x<<=", $tn), &args, r, &wl);
                    let r = call(ctx, || { let mut z = v.b.clone(); z <<= &t; z });
                    expect_int(ctx, concat!("BigInt x<<=&", $tn), &args, r, &wl);
                    if let Some(u) = &v.u {
                        let r = call(ctx, || u << t);
                        expect_nat(ctx, concat!("BigUint &x<<", $tn), &args, r, &wl.mag);
                        let r = call(ctx, || u.clone() << t);
                        expect_nat(ctx, concat!("BigUint x<<", $tn), &args, r, &wl.mag);
                        let r = call(ctx, || u << &t);
                        expect_nat(ctx, concat!("BigUint &x<<&", $tn), &args, r, &wl.mag);
                        let r = call(ctx, || { let mut z = u.clone(); z <<= t; z });
                        expect_nat(ctx, concat!("BigUint x<<=", $tn), &args, r, &wl.mag);
                    }
                    if ku <= 1000 && !v.i.is_zero() {
                        // owned operand on a buffer with room for the whole result (the clone()-built forms above have
                        // capacity = length and can never shift in place)
                        let want = (v.i.mag.bits() as usize + ku as usize) / 64 + 3;
                        let r = call(ctx, || nbmc::with_slack(v.b.magnitude(), want).0 << t);
                        expect_nat(ctx, concat!("BigUint x(slack)<<", $tn), &args, r, &wl.mag);
                        let r = call(ctx, || { let mut z = nbmc::with_slack(v.b.magnitude(), want).0; z <<= t; z });
                        expect_nat(ctx, concat!("BigUint x(slack)<<=", $tn), &args, r, &wl.mag);
                        let r = call(ctx, || BigInt::from_biguint(v.b.sign(), nbmc::with_slack(v.b.magnitude(), want).0) << t);
                        expect_int(ctx, concat!("BigInt x(slack)<<", $tn), &args, r, &wl);
                        let r = call(ctx, || { let mut z = BigInt::from_biguint(v.b.sign(), nbmc::with_slack(v.b.magnitude(), want).0); z >>= t; z });
                        expect_int(ctx, concat!("BigInt x(slack)>>=", $tn), &args, r, &wr);
                    }
                }
            }
        }
    }};
}

fn shifts_value(ctx: &mut Ctx, v: &V, amounts: &[i128]) {
    for &k in amounts {
        let ok = k <= 65535;
        shift_type!(ctx, v, k, u8, "u8", ok);
        shift_type!(ctx, v, k, u16, "u16", ok);
        shift_type!(ctx, v, k, u32, "u32", ok);
        shift_type!(ctx, v, k, u64, "u64", ok);
        shift_type!(ctx, v, k, u128, "u128", ok);
        shift_type!(ctx, v, k, usize, "usize", ok);
        shift_type!(ctx, v, k, i8, "i8", ok);
        shift_type!(ctx, v, k, i16, "i16", ok);
        shift_type!(ctx, v, k, i32, "i32", ok);
        shift_type!(ctx, v, k, i64, "i64", ok);
        shift_type!(ctx, v, k, i128, "i128", ok);
        shift_type!(ctx, v, k, isize, "isize", ok);
    }
}

fn bits_value(ctx: &mut Ctx, v: &V, maxidx: u64) {
    let len_bits = v.i.mag.len() as u64 * 64;
    let mut idxs: Vec<u64> = (0..=maxidx).collect();
    idxs.push(1 << 32);
    idxs.push(1 << 40);
    for &i in &idxs {
        ctx.case();
        if i <= len_bits + 64 {
            ctx.nontrivial(1);
        }
        let args = || vec![format!("x={}", v.i.to_hex()), format!("i={}", i)];
        let want = v.i.bit(i);
        let r = call(ctx, || v.b.bit(i));
        ctx.compared(1);
        if r != Out::Ret(want) {
            ctx.viol(format!("BigInt bit {}", args().join(" ")), "bit query differs from the two's-complement expansion", args(), format!("{}", want), format!("{:?}", r));
        }
        if let Some(u) = &v.u {
            let r = call(ctx, || u.bit(i));
            ctx.compared(1);
            if r != Out::Ret(want) {
                ctx.viol(format!("BigUint bit {}", args().join(" ")), "bit query differs", args(), format!("{}", want), format!("{:?}", r));
            }
        }
        if i <= maxidx {
            for val in [true, false] {
                let w = v.i.set_bit(i, val);
                let r = call(ctx, || {
                    let mut t = v.b.clone();
                    t.set_bit(i, val);
                    t
                });
                expect_int(ctx, if val { "BigInt set_bit(i,true)" } else { "BigInt set_bit(i,false)" }, &args, r, &w);
                if let Some(u) = &v.u {
                    let r = call(ctx, || {
                        let mut t = u.clone();
                        t.set_bit(i, val);
                        t
                    });
                    expect_nat(ctx, if val { "BigUint set_bit(i,true)" } else { "BigUint set_bit(i,false)" }, &args, r, &w.mag);
                }
            }
        } else {
            // clearing a bit far beyond the top of a non-negative value is a no-op; setting one far
            // beyond the top of a negative value is a no-op (no allocation involved)
            if !v.i.neg {
                let r = call(ctx, || {
                    let mut t = v.b.clone();
                    t.set_bit(i, false);
                    t
                });
                expect_int(ctx, "BigInt set_bit(far,false)", &args, r, &v.i);
                if let Some(u) = &v.u {
                    let r = call(ctx, || {
                        let mut t = u.clone();
                        t.set_bit(i, false);
                        t
                    });
                    expect_nat(ctx, "BigUint set_bit(far,false)", &args, r, &v.i.mag);
                }
            } else {
                let r = call(ctx, || {
                    let mut t = v.b.clone();
                    t.set_bit(i, true);
                    t
                });
                expect_int(ctx, "BigInt set_bit(far,true) on negative", &args, r, &v.i);
            }
        }
    }
    // whole-value queries
    ctx.case();
    let args = || vec![format!("x={}", v.i.to_hex())];
    ctx.compared(2);
    let r = call(ctx, || v.b.bits());
    if r != Out::Ret(v.i.mag.bits()) {
        ctx.viol(format!("BigInt bits {}", args().join(" ")), "bits() wrong", args(), format!("{}", v.i.mag.bits()), format!("{:?}", r));
    }
    let r = call(ctx, || v.b.trailing_zeros());
    if r != Out::Ret(v.i.mag.trailing_zeros()) {
        ctx.viol(format!("BigInt trailing_zeros {}", args().join(" ")), "trailing_zeros() wrong", args(), format!("{:?}", v.i.mag.trailing_zeros()), format!("{:?}", r));
    }
    if let Some(u) = &v.u {
        ctx.compared(4);
        let r = call(ctx, || (u.bits(), u.trailing_zeros(), u.trailing_ones(), u.count_ones()));
        let want = (v.i.mag.bits(), v.i.mag.trailing_zeros(), v.i.mag.trailing_ones(), v.i.mag.count_ones());
        if r != Out::Ret(want) {
            ctx.viol(format!("BigUint bit-queries {}", args().join(" ")), "bits/trailing_zeros/trailing_ones/count_ones wrong", args(), format!("{:?}", want), format!("{:?}", r));
        }
    }
}

fn pairs(ctx: &mut Ctx, name: &str, a: &[V], b: &[V]) {
    if !ctx.space(name) {
        return;
    }
    for (i, x) in a.iter().enumerate() {
        if !ctx.mine(i as u64) {
            continue;
        }
        for (j, y) in b.iter().enumerate() {
            ctx.inner(j as u64);
            logic_pair(ctx, x, y);
        }
        not_value(ctx, x);
        ctx.sample(|| format!("a={} with every b of the family ({} values): & | ^ in 6 forms each, BigInt and (if non-negative) BigUint", x.i.to_hex(), b.len()));
    }
}

fn body(ctx: &mut Ctx) {
    let tier = ctx.tier;
    ctx.set_transcript_every(tier.pick(211, 1999));
    let d3 = signed(&alpha::dense(&alpha::SIGMA5, 3));
    pairs(ctx, "B1", &d3, &d3);
    {
        let d4: Vec<V> = signed(&alpha::dense(&alpha::SIGMA5, 4).into_iter().filter(|d| d.len() == 4).collect::<Vec<_>>());
        let d2 = signed(&alpha::dense(&alpha::SIGMA5, 2));
        pairs(ctx, "B1-4x2", &d4, &d2);
        pairs(ctx, "B1-2x4", &d2, &d4);
        if tier == Tier::Thorough {
            pairs(ctx, "B1-4x4", &d4, &d4);
            pairs(ctx, "B1-4x3", &d4, &d3);
            pairs(ctx, "B1-3x4", &d3, &d4);
        }
    }
    let (k, l) = tier.pick((3, 8), (3, 12));
    let r = signed(&alpha::runs(&alpha::SIGMA3, k, l));
    pairs(ctx, "B2", &r, &r);

    {
        let lmax = tier.pick(6usize, 10usize);
        let mut set: Vec<Vec<u64>> = Vec::new();
        for l in 1..=lmax {
            for salt in 0..3u64 {
                set.push(alpha::lcg_digits(l, salt));
            }
        }
        let dense_vals = signed(&set);
        pairs(ctx, "B5", &dense_vals, &dense_vals);
    }
    if ctx.space("B3") {
        let mut amounts: Vec<i128> = vec![0, 1, 2, 31, 32, 33, 63, 64, 65, 127, 128, 129, 191, 192, 193, 200, 1000];
        // each type's MAX, and negative amounts
        amounts.extend([255, 32767, 65535, i32::MAX as i128, u32::MAX as i128, i64::MAX as i128, u64::MAX as i128, i128::MAX]);
        amounts.extend([-1, -2, -64, i8::MIN as i128, i16::MIN as i128, i32::MIN as i128, i64::MIN as i128, i128::MIN]);
        for (i, v) in d3.iter().enumerate() {
            if !ctx.mine(i as u64) {
                continue;
            }
            shifts_value(ctx, v, &amounts);
            {
                for k in 0..=tier.pick(200i128, 520i128) {
                    let ok = true;
                    shift_type!(ctx, v, k, u32, "u32", ok);
                    shift_type!(ctx, v, k, i64, "i64", ok);
                    shift_type!(ctx, v, k, u128, "u128", ok);
                }
            }
            ctx.sample(|| format!("x={} x {} shift amounts x 12 shift types x (<<, >>, <<=, >>=, reference amount)", v.i.to_hex(), amounts.len()));
        }
        // u128 amounts above u64::MAX on >> (must give 0 / -1, not truncate the amount)
        if ctx.mine(1_000_000) {
            for v in d3.iter().take(40) {
                ctx.case();
                let t: u128 = (1u128 << 64) + 1;
                let w = if v.i.neg { Int::from_i64(-1) } else { Int::zero() };
                let args = || vec![format!("x={}", v.i.to_hex()), "k=2^64+1 (u128)".to_string()];
                let r = call(ctx, || &v.b >> t);
                expect_int(ctx, "BigInt &x>>u128 above u64", &args, r, &w);
                if let Some(u) = &v.u {
                    let r = call(ctx, || u >> t);
                    expect_nat(ctx, "BigUint &x>>u128 above u64", &args, r, &Nat::zero());
                }
            }
        }
    }
    // B7: half-digit value structure
    {
        let h2 = signed(&alpha::dense(&alpha::SIGMA16, 2));
        pairs(ctx, "B7", &h2, &h2);
    }
    // B6: long values (more than a thousand digits): logic, shifts by large and digit-aligned amounts, bit queries near the top
    if ctx.space("B6") {
        let lens: Vec<usize> = tier.pick(vec![300, 1100], vec![300, 1100, 2100, 4099]);
        let mut set: Vec<Vec<u64>> = Vec::new();
        for &l in &lens {
            set.push(alpha::lcg_digits(l, 5));
            set.push(vec![alpha::M; l]);
            let mut v = vec![0u64; l];
            v[l - 1] = 1;
            set.push(v.clone());
            v[l - 1] = alpha::H;
            v[0] = 1;
            set.push(v);
        }
        set.push(vec![1]);
        set.push(vec![alpha::M, alpha::M]);
        let vals = signed(&set);
        for (i, a) in vals.iter().enumerate() {
            if !ctx.mine(i as u64) {
                continue;
            }
            for b in vals.iter() {
                logic_pair(ctx, a, b);
            }
            not_value(ctx, a);
            let top = a.i.mag.bits() as i128;
            let amounts: Vec<i128> = vec![0, 1, 63, 64, 65, 64 * 1023, 64 * 1024, 64 * 1024 + 1, 65535, 65536, 70000, top - 1, top, top + 1, top + 64, 300_000];
            shifts_value(ctx, a, &amounts);
            bits_value(ctx, a, 130);
            ctx.sample(|| format!("x of {} bits: & | ^ against {} long values (all sign pairs), !, shifts by {:?}, bit queries", top, vals.len(), amounts));
        }
    }
    if ctx.space("B4") {
        let vals = signed(&alpha::dense(&alpha::SIGMA5, 4));
        let maxidx = tier.pick(330, 400);
        for (i, v) in vals.iter().enumerate() {
            if !ctx.mine(i as u64) {
                continue;
            }
            bits_value(ctx, v, maxidx);
            ctx.sample(|| format!("x={} x bit indices 0..={} and 2^32, 2^40: bit, set_bit(true/false), bits, trailing_zeros, trailing_ones, count_ones", v.i.to_hex(), maxidx));
        }
    }
}

fn main() {
    runner::main(SPEC, body)
}
