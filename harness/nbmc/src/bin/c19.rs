//! C19 -- sign, negation and identity helpers agree with the integer value.
use nbmc::*;
use num_bigint::{ToBigInt, ToBigUint};
use num_traits::{One, Signed, Zero};
use std::convert::TryFrom;

const SPEC: Spec = Spec {
    id: "C19",
    engine: "E-prod (exhaustive enumeration of values, (Sign, magnitude) pairs and ordered value pairs; real code vs refint definitions)",
    rule: "every value of the pool and +-Dense(S5,2), each also as a value whose in-place predecessor had a larger capacity, through Neg (value, reference), abs, signum, is_positive, is_negative, sign, magnitude, into_parts/from_biguint, to_biguint/to_bigint/From/TryFrom, zero/ZERO/default/one/is_zero/is_one/set_zero/set_one; every ordered pair through abs_sub = max(x-y,0); all 3 x |magnitudes| (Sign, magnitude) pairs incl. inconsistent ones; the full Sign negation and multiplication tables; non-trivial = non-zero value (unary), x != y (abs_sub), inconsistent pair (from_biguint)",
    assumptions: &["values from the 30-value magnitude pool and the 5-letter digit alphabet up to 2 digits; 'larger-capacity predecessor' built by set_zero / set_one / clone_from / >>= on a 70-digit object"],
    bounds_quick: "U pool + Dense(S5,3), both signs, x 4 provenances; AS all ordered pairs of those ~360 signed values; FP 3 signs x all magnitudes; ST sign tables",
    bounds_thorough: "same with Dense(S5,4) (~1300 signed values, 1.7M ordered pairs for abs_sub)",
    hang_secs: 60,
    probes: None,
    max_workers: 16,
};

fn mags(tier: Tier) -> Vec<Nat> {
    let mut v: Vec<Nat> = alpha::pool_mags().iter().map(|d| Nat::from_digits(d)).collect();
    for d in alpha::dense(&alpha::SIGMA5, tier.pick(3, 4)) {
        let n = Nat::from_digits(&d);
        if !v.contains(&n) {
            v.push(n);
        }
    }
    v
}

/// the same value, reached on an object whose buffer used to hold 70 digits
fn with_big_predecessor(v: &Int, how: usize) -> BigInt {
    let mut x = BigInt::from(bu(&alpha::pat(70, 10)));
    match how % 3 {
        0 => {
            x.set_zero();
            x += bi_int(v);
        }
        1 => {
            x.clone_from(&bi_int(v));
        }
        _ => {
            x >>= 70 * 64u32;
            x.set_one();
            x -= 1u32;
            x += &bi_int(v);
        }
    }
    x
}

fn sgn_of(i: &Int) -> Sign {
    match i.signum() {
        -1 => Sign::Minus,
        0 => Sign::NoSign,
        _ => Sign::Plus,
    }
}

fn unary(ctx: &mut Ctx, v: &Int, x: &BigInt, prov: &str) {
    ctx.case();
    if !v.is_zero() {
        ctx.nontrivial(1);
    }
    let args = || vec![format!("x={}", v.to_hex()), prov.to_string()];
    ctx.outcome_digits(v.mag.digits());
    let r = call(ctx, || -x);
    expect_int(ctx, "-&x", &args, r, &v.neg());
    let r = call(ctx, || -x.clone());
    expect_int(ctx, "-x", &args, r, &v.neg());
    let r = call(ctx, || x + (-x));
    expect_int(ctx, "x + (-x)", &args, r, &Int::zero());
    let r = call(ctx, || x.abs());
    expect_int(ctx, "abs", &args, r, &v.abs());
    let r = call(ctx, || x.signum());
    expect_int(ctx, "signum", &args, r, &Int::from_i64(v.signum() as i64));
    ctx.compared(4);
    let r = call(ctx, || (x.is_positive(), x.is_negative(), x.sign(), nat_of(x.magnitude())));
    let want = (v.signum() > 0, v.signum() < 0, sgn_of(v), v.mag.clone());
    if r != Out::Ret(want.clone()) {
        ctx.viol(format!("sign queries x={} {}", v.to_hex(), prov), "is_positive / is_negative / sign / magnitude disagree with the value", args(), format!("{:?}", want), format!("{:?}", r));
    }
    // into_parts / from_biguint inverse on canonical pairs
    let r = call(ctx, || {
        let (s, m) = x.clone().into_parts();
        (s, nat_of(&m), int_of(&BigInt::from_biguint(s, m)))
    });
    ctx.compared(1);
    if r != Out::Ret((sgn_of(v), v.mag.clone(), v.clone())) {
        ctx.viol(format!("into_parts/from_biguint x={} {}", v.to_hex(), prov), "into_parts and from_biguint are not mutually inverse", args(), format!("{:?}", (sgn_of(v), v.mag.to_hex())), format!("{:?}", r));
    }
    // to_biguint / TryFrom: succeed exactly for non-negative values
    let wantu = if v.neg { None } else { Some(v.mag.clone()) };
    ctx.compared(3);
    let r = call(ctx, || x.to_biguint().map(|u| nat_of(&u)));
    if r != Out::Ret(wantu.clone()) {
        ctx.viol(format!("to_biguint x={} {}", v.to_hex(), prov), "to_biguint must succeed exactly for non-negative values", args(), format!("{:?}", wantu), format!("{:?}", r));
    }
    // the ToBigUint trait impl is a separate copy from the inherent method (method syntax picks the inherent one)
    ctx.compared(2);
    let r = call(ctx, || ToBigUint::to_biguint(x).map(|u| nat_of(&u)));
    if r != Out::Ret(wantu.clone()) {
        ctx.viol(format!("ToBigUint::to_biguint(&BigInt) x={} {}", v.to_hex(), prov), "the trait form of to_biguint must succeed exactly for non-negative values", args(), format!("{:?}", wantu), format!("{:?}", r));
    }
    fn generic<T: ToBigUint + ToBigInt>(t: &T) -> (Option<BigUint>, Option<BigInt>) {
        (t.to_biguint(), t.to_bigint())
    }
    let r = call(ctx, || {
        let (a, b) = generic(x);
        (a.map(|u| nat_of(&u)), b.map(|i| int_of(&i)))
    });
    if r != Out::Ret((wantu.clone(), Some(v.clone()))) {
        ctx.viol(format!("generic ToBigUint/ToBigInt on BigInt x={} {}", v.to_hex(), prov), "generic conversion through the traits disagrees with the value", args(), format!("{:?}", (wantu.clone(), v.to_hex())), format!("{:?}", r));
    }
    let r = call(ctx, || BigUint::try_from(x).ok().map(|u| nat_of(&u)));
    if r != Out::Ret(wantu.clone()) {
        ctx.viol(format!("TryFrom<&BigInt> for BigUint x={} {}", v.to_hex(), prov), "must succeed exactly for non-negative values", args(), format!("{:?}", wantu), format!("{:?}", r));
    }
    let r = call(ctx, || BigUint::try_from(x.clone()).ok().map(|u| nat_of(&u)));
    if r != Out::Ret(wantu.clone()) {
        ctx.viol(format!("TryFrom<BigInt> for BigUint x={} {}", v.to_hex(), prov), "must succeed exactly for non-negative values", args(), format!("{:?}", wantu), format!("{:?}", r));
    }
    let r = call(ctx, || x.to_bigint().unwrap());
    expect_int(ctx, "BigInt::to_bigint", &args, r, v);
    if !v.neg {
        let u = bu_nat(&v.mag);
        let r = call(ctx, || u.to_bigint().unwrap());
        expect_int(ctx, "BigUint::to_bigint", &args, r, v);
        let r = call(ctx, || BigInt::from(u.clone()));
        expect_int(ctx, "BigInt::from(BigUint)", &args, r, v);
        let r = call(ctx, || u.to_biguint().unwrap());
        expect_nat(ctx, "BigUint::to_biguint", &args, r, &v.mag);
        ctx.compared(1);
        let r = call(ctx, || (u.is_zero(), u.is_one()));
        if r != Out::Ret((v.is_zero(), v.mag.is_one())) {
            ctx.viol(format!("BigUint is_zero/is_one x={}", v.to_hex()), "identity predicates wrong", args(), format!("{:?}", (v.is_zero(), v.mag.is_one())), format!("{:?}", r));
        }
        let r = call(ctx, || {
            let mut t = u.clone();
            t.set_zero();
            t
        });
        expect_nat(ctx, "BigUint set_zero", &args, r, &Nat::zero());
        let r = call(ctx, || {
            let mut t = u.clone();
            t.set_one();
            t
        });
        expect_nat(ctx, "BigUint set_one", &args, r, &Nat::one());
    }
    ctx.compared(1);
    let r = call(ctx, || (x.is_zero(), x.is_one()));
    let want = (v.is_zero(), !v.neg && v.mag.is_one());
    if r != Out::Ret(want) {
        ctx.viol(format!("BigInt is_zero/is_one x={} {}", v.to_hex(), prov), "identity predicates wrong", args(), format!("{:?}", want), format!("{:?}", r));
    }
    let r = call(ctx, || {
        let mut t = x.clone();
        t.set_zero();
        t
    });
    expect_int(ctx, "BigInt set_zero", &args, r, &Int::zero());
    let r = call(ctx, || {
        let mut t = x.clone();
        t.set_one();
        t
    });
    expect_int(ctx, "BigInt set_one", &args, r, &Int::from_i64(1));
}

fn body(ctx: &mut Ctx) {
    let tier = ctx.tier;
    let ms = mags(tier);
    let mut vals: Vec<Int> = Vec::new();
    for m in &ms {
        vals.push(Int::new(false, m.clone()));
        if !m.is_zero() {
            vals.push(Int::new(true, m.clone()));
        }
    }
    if ctx.space("U") {
        for (i, v) in vals.iter().enumerate() {
            if !ctx.mine(i as u64) {
                continue;
            }
            unary(ctx, v, &bi_int(v), "fresh");
            for how in 0..3 {
                unary(ctx, v, &with_big_predecessor(v, how), ["after set_zero", "after clone_from", "after >>= and set_one"][how]);
            }
            ctx.sample(|| format!("x={} fresh and on an object whose buffer held 70 digits (3 ways)", v.to_hex()));
        }
        if ctx.mine(1 << 40) {
            ctx.case();
            let args = || vec![];
            let r = call(ctx, || BigInt::zero());
            expect_int(ctx, "BigInt::zero()", &args, r, &Int::zero());
            let r = call(ctx, || BigInt::ZERO);
            expect_int(ctx, "BigInt::ZERO", &args, r, &Int::zero());
            let r = call(ctx, || BigInt::default());
            expect_int(ctx, "BigInt::default()", &args, r, &Int::zero());
            let r = call(ctx, || BigInt::one());
            expect_int(ctx, "BigInt::one()", &args, r, &Int::from_i64(1));
            let r = call(ctx, || BigUint::zero());
            expect_nat(ctx, "BigUint::zero()", &args, r, &Nat::zero());
            let r = call(ctx, || BigUint::ZERO);
            expect_nat(ctx, "BigUint::ZERO", &args, r, &Nat::zero());
            let r = call(ctx, || BigUint::default());
            expect_nat(ctx, "BigUint::default()", &args, r, &Nat::zero());
            let r = call(ctx, || BigUint::one());
            expect_nat(ctx, "BigUint::one()", &args, r, &Nat::one());
            // trait-level constants and predicates (generic code reaches these, not the inherent items)
            fn consts<T: num_traits::ConstZero + One + Default + Zero + PartialEq>() -> (bool, bool, bool, bool) {
                (T::ZERO == T::zero(), T::ZERO.is_zero(), T::one().is_one() && !T::one().is_zero(), T::default() == T::ZERO && !T::ZERO.is_one())
            }
            ctx.compared(2);
            let r = call(ctx, consts::<BigInt>);
            if r != Out::Ret((true, true, true, true)) {
                ctx.viol("BigInt ConstZero/Zero/One/Default".to_string(), "trait-level ZERO / zero() / one() / default() disagree", vec![], "(true, true, true, true)".to_string(), format!("{:?}", r));
            }
            let r = call(ctx, consts::<BigUint>);
            if r != Out::Ret((true, true, true, true)) {
                ctx.viol("BigUint ConstZero/Zero/One/Default".to_string(), "trait-level ZERO / zero() / one() / default() disagree", vec![], "(true, true, true, true)".to_string(), format!("{:?}", r));
            }
            let r = call(ctx, || <BigInt as num_traits::ConstZero>::ZERO);
            expect_int(ctx, "<BigInt as ConstZero>::ZERO", &args, r, &Int::zero());
            let r = call(ctx, || <BigUint as num_traits::ConstZero>::ZERO);
            expect_nat(ctx, "<BigUint as ConstZero>::ZERO", &args, r, &Nat::zero());
        }
    }
    if ctx.space("AS") {
        let sub: Vec<&Int> = vals.iter().collect();
        for (i, x) in sub.iter().enumerate() {
            if !ctx.mine(i as u64) {
                continue;
            }
            let bx = bi_int(x);
            for y in &sub {
                ctx.case();
                if x != y {
                    ctx.nontrivial(1);
                }
                let d = x.sub(y);
                let want = if d.neg { Int::zero() } else { d };
                let by = bi_int(y);
                let args = || vec![format!("x={}", x.to_hex()), format!("y={}", y.to_hex())];
                let r = call(ctx, || bx.abs_sub(&by));
                expect_int(ctx, "abs_sub", &args, r, &want);
            }
            ctx.sample(|| format!("abs_sub(x={}, y) for every y of {} signed values", x.to_hex(), sub.len()));
        }
    }
    if ctx.space("FP") {
        for (i, m) in ms.iter().enumerate() {
            if !ctx.mine(i as u64) {
                continue;
            }
            for s in [Sign::Minus, Sign::NoSign, Sign::Plus] {
                ctx.case();
                let want = match s {
                    Sign::NoSign => Int::zero(),
                    Sign::Minus => Int::new(true, m.clone()),
                    Sign::Plus => Int::new(false, m.clone()),
                };
                if (s == Sign::NoSign) != m.is_zero() {
                    ctx.nontrivial(1);
                }
                let args = || vec![format!("sign={:?}", s), format!("mag={}", m.to_hex())];
                let r = call(ctx, || BigInt::from_biguint(s, bu_nat(m)));
                expect_int(ctx, "from_biguint", &args, r, &want);
                // canonical parts come back
                ctx.compared(1);
                let r = call(ctx, || {
                    let (s2, m2) = BigInt::from_biguint(s, bu_nat(m)).into_parts();
                    (s2, nat_of(&m2))
                });
                if r != Out::Ret((sgn_of(&want), want.mag.clone())) {
                    ctx.viol(format!("from_biguint/into_parts {:?} {}", s, m.to_hex()), "a NoSign request must yield zero, a zero magnitude must yield NoSign", args(), format!("{:?}", (sgn_of(&want), want.mag.to_hex())), format!("{:?}", r));
                }
                // the other (Sign, magnitude) constructors follow the same rule: sign and magnitude of the result
                let u32d = m.to_u32_digits();
                let bytes = m.to_bytes_le_min();
                let ctors: Vec<(&str, Box<dyn Fn() -> BigInt>)> = vec![
                    ("new", Box::new(|| BigInt::new(s, u32d.clone()))),
                    ("from_slice", Box::new(|| BigInt::from_slice(s, &u32d))),
                    ("assign_from_slice", Box::new(|| {
                        let mut t = BigInt::from(-7);
                        t.assign_from_slice(s, &u32d);
                        t
                    })),
                    ("from_bytes_le", Box::new(|| BigInt::from_bytes_le(s, &bytes))),
                    ("from_bytes_be", Box::new(|| BigInt::from_bytes_be(s, &bytes.iter().rev().cloned().collect::<Vec<u8>>()))),
                    ("from_radix_le(256)", Box::new(|| BigInt::from_radix_le(s, &bytes, 256).unwrap())),
                ];
                for (name, f) in &ctors {
                    ctx.compared(1);
                    let r = call(ctx, || {
                        let x = f();
                        (x.sign(), nat_of(x.magnitude()), x.is_zero(), x.is_positive(), x.is_negative())
                    });
                    let w = (sgn_of(&want), want.mag.clone(), want.is_zero(), want.signum() > 0, want.signum() < 0);
                    if r != Out::Ret(w.clone()) {
                        ctx.viol(format!("{} {:?} {}", name, s, m.to_hex()), "sign / magnitude of a value built from a (Sign, magnitude) request: a NoSign request must yield zero, a zero magnitude must yield NoSign", args(), format!("{:?}", (w.0, w.1.to_hex(), w.2, w.3, w.4)), format!("{:?}", r));
                    }
                }
            }
        }
    }
    if ctx.space("ST") && ctx.mine(0) {
        let signs = [Sign::Minus, Sign::NoSign, Sign::Plus];
        let val = |s: Sign| match s {
            Sign::Minus => -1,
            Sign::NoSign => 0,
            Sign::Plus => 1,
        };
        for a in signs {
            ctx.case();
            ctx.nontrivial(1);
            ctx.compared(1);
            let r = call(ctx, || val(-a));
            if r != Out::Ret(-val(a)) {
                ctx.viol(format!("Sign neg {:?}", a), "Sign negation does not follow the rule of signs", vec![], format!("{}", -val(a)), format!("{:?}", r));
            }
            for b in signs {
                ctx.case();
                ctx.compared(1);
                let r = call(ctx, || val(a * b));
                if r != Out::Ret(val(a) * val(b)) {
                    ctx.viol(format!("Sign mul {:?} {:?}", a, b), "Sign multiplication does not follow the rule of signs", vec![], format!("{}", val(a) * val(b)), format!("{:?}", r));
                }
            }
        }
        ctx.sample(|| "all 3 Sign negations and 9 Sign products".to_string());
    }
}

fn main() {
    runner::main(SPEC, body)
}
