//! C01 -- addition and subtraction are exact for every operand length and carry pattern.
use nbmc::*;
use num_traits::{CheckedAdd, CheckedSub};

const SPEC: Spec = Spec {
    id: "C01",
    engine: "E-prod (exhaustive product enumeration of operand pairs, real code vs refint)",
    rule: "every ordered pair (a,b) of the stated digit-string families is executed through all add/sub forms of BigUint and, for all four sign pairs, BigInt; a case is non-trivial when both operands are non-zero and a carry or borrow crosses at least one digit boundary",
    assumptions: &[
        "digits outside the alphabet {0,1,2^63,2^64-2,2^64-1} are covered only through the argument that add/sub control flow depends on digit values solely via carry/borrow generate/propagate/kill",
        "refint (schoolbook add/sub on u64 limbs) is trusted; it is cross-checked against Python int on a transcript slice",
        "x86_64 only: the 32-bit digit build and the non-x86 adc/sbb fallbacks are not exercised",
    ],
    bounds_quick: "S1 Dense(S5,4)^2; S2 Runs(S5,2,12)^2; S3 block-boundary lengths {4,5,6,9,10,11,14,15,16,20,21}x{+0,+1,+5,+6} with Runs(S5,2,.); S4 dense LCG digit strings, all length pairs <= 24 x 3x3 family members; S5 scalar forms: Dense(S5,4)+Runs(S5,2,8) x 390 scalars (every 2^k-1, 2^k, 2^k+1 for k < 128 and the type extremes; u32/u64/u128, +-i64/i128); S9 scalar matrix: 18 magnitudes x both signs x 32 edge scalars x 12 primitive types x every add/sub form; S8 Dense(S16,2)^2 (16-letter half-digit alphabet); S7 long operands of 64..1100 digits (4 shapes each, all pairs); S6 (Dense(S5,3) + lengths 4..12 x 3 shapes)^2 through the in-place / owning forms on operands with spare buffer capacity",
    bounds_thorough: "S1 Dense(S5,4)^2; S2 Runs(S5,3,17)^2 (panicking forms on the Runs(S5,3,10) sub-square); S3 as quick with Runs(S5,3,.) for the shorter operand; S4 length pairs <= 48 x 7x7 family members; S5; S6 with lengths up to 24; S7 up to 4099 digits",
    hang_secs: 120,
    probes: Some(probes),
    max_workers: 16,
};

struct Op {
    d: Vec<u64>,
    n: Nat,
    u: BigUint,
    saved: BigUint,
    pos: BigInt,
    neg: BigInt,
}
fn mk(d: &[u64]) -> Op {
    let n = Nat::from_digits(d);
    let u = bu(d);
    let pos = BigInt::from(u.clone());
    let neg = -pos.clone();
    Op { d: d.to_vec(), n, saved: u.clone(), u, pos, neg }
}

fn carries(a: &[u64], b: &[u64], sum: &Nat, diff: &Option<Nat>) -> bool {
    if a.is_empty() || b.is_empty() {
        return false;
    }
    // digit-wise wrapping results differ from the true ones iff a carry / borrow crossed a boundary
    let n = a.len().max(b.len());
    let mut w = Vec::with_capacity(n);
    let mut x = Vec::with_capacity(n);
    for i in 0..n {
        let p = *a.get(i).unwrap_or(&0);
        let q = *b.get(i).unwrap_or(&0);
        w.push(p.wrapping_add(q));
        x.push(p.wrapping_sub(q));
    }
    if Nat::from_digits(&w) != *sum {
        return true;
    }
    match diff {
        Some(d) => Nat::from_digits(&x) != *d,
        None => false,
    }
}

/// All forms for the ordered pair (a, b).  `panics`: also run the forms that must panic.
fn pair(ctx: &mut Ctx, a: &Op, b: &Op, panics: bool, bigint: bool) {
    ctx.case();
    let sum = a.n.add(&b.n);
    let diff = a.n.sub(&b.n);
    if carries(&a.d, &b.d, &sum, &diff) {
        ctx.nontrivial(1);
    }
    ctx.tr(|| format!("add {} {} {}", a.n.to_hex(), b.n.to_hex(), sum.to_hex()));
    let args = || vec![format!("a={}", a.n.to_hex()), format!("b={}", b.n.to_hex())];
    ctx.outcome_digits(sum.digits());

    // ---- BigUint addition
    let r = call(ctx, || &a.u + &b.u);
    expect_nat(ctx, "BigUint &a+&b", &args, r, &sum);
    let r = call(ctx, || {
        let mut x = a.u.clone();
        x += &b.u;
        x
    });
    expect_nat(ctx, "BigUint a+=&b", &args, r, &sum);
    let r = call(ctx, || a.u.clone() + b.u.clone());
    expect_nat(ctx, "BigUint a+b", &args, r, &sum);
    let r = call(ctx, || a.u.clone() + &b.u);
    expect_nat(ctx, "BigUint a+&b", &args, r, &sum);
    let r = call(ctx, || &a.u + b.u.clone());
    expect_nat(ctx, "BigUint &a+b", &args, r, &sum);
    let r = call(ctx, || a.u.checked_add(&b.u));
    match r {
        Out::Ret(Some(x)) => expect_nat(ctx, "BigUint checked_add", &args, Out::Ret(x), &sum),
        Out::Ret(None) => ctx.viol(format!("BigUint checked_add {}", args().join(" ")), "checked_add returned None", args(), sum.to_hex(), "None".into()),
        Out::Panic(m) => ctx.viol(format!("BigUint checked_add {}", args().join(" ")), "checked_add panicked", args(), sum.to_hex(), m),
    }

    // ---- BigUint subtraction
    match &diff {
        Some(d) => {
            ctx.tr(|| format!("sub {} {} {}", a.n.to_hex(), b.n.to_hex(), d.to_hex()));
            ctx.outcome_digits(d.digits());
            let r = call(ctx, || &a.u - &b.u);
            expect_nat(ctx, "BigUint &a-&b", &args, r, d);
            let r = call(ctx, || {
                let mut x = a.u.clone();
                x -= &b.u;
                x
            });
            expect_nat(ctx, "BigUint a-=&b", &args, r, d);
            let r = call(ctx, || &a.u - b.u.clone());
            expect_nat(ctx, "BigUint &a-b", &args, r, d);
            let r = call(ctx, || a.u.clone() - b.u.clone());
            expect_nat(ctx, "BigUint a-b", &args, r, d);
            let r = call(ctx, || a.u.clone() - &b.u);
            expect_nat(ctx, "BigUint a-&b", &args, r, d);
            let r = call(ctx, || a.u.checked_sub(&b.u));
            match r {
                Out::Ret(Some(x)) => expect_nat(ctx, "BigUint checked_sub", &args, Out::Ret(x), d),
                Out::Ret(None) => ctx.viol(format!("BigUint checked_sub {}", args().join(" ")), "checked_sub returned None although a >= b", args(), d.to_hex(), "None".into()),
                Out::Panic(m) => ctx.viol(format!("BigUint checked_sub {}", args().join(" ")), "checked_sub panicked", args(), d.to_hex(), m),
            }
        }
        None => {
            let r = call(ctx, || a.u.checked_sub(&b.u));
            expect_none(ctx, "BigUint checked_sub(a<b)", &args, r);
            if panics {
                let r = call(ctx, || &a.u - &b.u);
                expect_panic(ctx, "BigUint &a-&b (a<b)", &args, r);
                let r = call(ctx, || {
                    let mut x = a.u.clone();
                    x -= &b.u;
                    x
                });
                expect_panic(ctx, "BigUint a-=&b (a<b)", &args, r);
                let r = call(ctx, || &a.u - b.u.clone());
                expect_panic(ctx, "BigUint &a-b (a<b)", &args, r);
                let r = call(ctx, || a.u.clone() - b.u.clone());
                expect_panic(ctx, "BigUint a-b (a<b)", &args, r);
            }
        }
    }

    // ---- BigInt, four sign pairs
    if bigint {
        let absdiff = match &diff {
            Some(d) => d.clone(),
            None => b.n.sub(&a.n).unwrap(),
        };
        let a_ge_b = diff.is_some();
        for (sa, sb) in [(false, false), (false, true), (true, false), (true, true)] {
            let x = if sa { &a.neg } else { &a.pos };
            let y = if sb { &b.neg } else { &b.pos };
            // x + y
            let want_add = if sa == sb { Int::new(sa, sum.clone()) } else { Int::new(if a_ge_b { sa } else { sb }, absdiff.clone()) };
            // x - y = x + (-y)
            let nsb = !sb;
            let want_sub = if sa == nsb { Int::new(sa, sum.clone()) } else { Int::new(if a_ge_b { sa } else { nsb }, absdiff.clone()) };
            let iargs = || vec![format!("x={}{}", if sa { "-" } else { "" }, a.n.to_hex()), format!("y={}{}", if sb { "-" } else { "" }, b.n.to_hex())];
            let r = call(ctx, || x + y);
            expect_int(ctx, "BigInt &x+&y", &iargs, r, &want_add);
            let r = call(ctx, || x - y);
            expect_int(ctx, "BigInt &x-&y", &iargs, r, &want_sub);
            let r = call(ctx, || {
                let mut t = x.clone();
                t += y;
                t
            });
            expect_int(ctx, "BigInt x+=&y", &iargs, r, &want_add);
            let r = call(ctx, || {
                let mut t = x.clone();
                t -= y;
                t
            });
            expect_int(ctx, "BigInt x-=&y", &iargs, r, &want_sub);
            let r = call(ctx, || x.clone() + y.clone());
            expect_int(ctx, "BigInt x+y", &iargs, r, &want_add);
            let r = call(ctx, || x.clone() - y.clone());
            expect_int(ctx, "BigInt x-y", &iargs, r, &want_sub);
            let r = call(ctx, || x.checked_add(y));
            match r {
                Out::Ret(Some(v)) => expect_int(ctx, "BigInt checked_add", &iargs, Out::Ret(v), &want_add),
                other => ctx.viol(format!("BigInt checked_add {}", iargs().join(" ")), "checked_add did not return Some", iargs(), want_add.to_hex(), format!("{:?}", other)),
            }
            let r = call(ctx, || x.checked_sub(y));
            match r {
                Out::Ret(Some(v)) => expect_int(ctx, "BigInt checked_sub", &iargs, Out::Ret(v), &want_sub),
                other => ctx.viol(format!("BigInt checked_sub {}", iargs().join(" ")), "checked_sub did not return Some", iargs(), want_sub.to_hex(), format!("{:?}", other)),
            }
            // trait forms (separate impls; method syntax resolves to the inherent methods)
            let r = call(ctx, || num_traits::CheckedAdd::checked_add(x, y));
            match r {
                Out::Ret(Some(v)) => expect_int(ctx, "CheckedAdd for BigInt", &iargs, Out::Ret(v), &want_add),
                other => ctx.viol(format!("CheckedAdd for BigInt {}", iargs().join(" ")), "checked_add did not return Some", iargs(), want_add.to_hex(), format!("{:?}", other)),
            }
            let r = call(ctx, || num_traits::CheckedSub::checked_sub(x, y));
            match r {
                Out::Ret(Some(v)) => expect_int(ctx, "CheckedSub for BigInt", &iargs, Out::Ret(v), &want_sub),
                other => ctx.viol(format!("CheckedSub for BigInt {}", iargs().join(" ")), "checked_sub did not return Some", iargs(), want_sub.to_hex(), format!("{:?}", other)),
            }
        }
    }
    // borrowed operands must be unchanged
    if a.u != a.saved || b.u != b.saved {
        ctx.viol(format!("operand-modified {}", args().join(" ")), "a borrowed operand was modified", args(), "unchanged".into(), "changed".into());
    }
}

fn square(ctx: &mut Ctx, name: &str, ops: &[Op], panic_upto_len: usize, bigint: bool) {
    if !ctx.space(name) {
        return;
    }
    for (i, a) in ops.iter().enumerate() {
        if !ctx.mine(i as u64) {
            continue;
        }
        for (j, b) in ops.iter().enumerate() {
            ctx.inner(j as u64);
            let panics = a.d.len() <= panic_upto_len && b.d.len() <= panic_upto_len;
            pair(ctx, a, b, panics, bigint);
            if j == 7 {
                ctx.sample(|| format!("a={} b={} -> all add/sub forms vs refint", a.n.to_hex(), b.n.to_hex()));
            }
        }
    }
}

fn body(ctx: &mut Ctx) {
    let tier = ctx.tier;
    ctx.set_transcript_every(tier.pick(97, 9973));
    // S1
    let s1: Vec<Op> = alpha::dense(&alpha::SIGMA5, 4).iter().map(|d| mk(d)).collect();
    square(ctx, "S1", &s1, 4, true);
    drop(s1);
    // S2
    let (k, l, pl) = tier.pick((2, 12, 12), (3, 17, 10));
    let s2: Vec<Op> = alpha::runs(&alpha::SIGMA5, k, l).iter().map(|d| mk(d)).collect();
    square(ctx, "S2", &s2, pl, true);
    drop(s2);
    // S4: dense LCG digits (no structure): every length pair x 3x3 members of the family
    if ctx.space("S4") {
        let lmax = tier.pick(24usize, 48usize);
        let mut o = 0u64;
        for la in 0..=lmax {
            for lb in 0..=la {
                let take = ctx.mine(o);
                o += 1;
                if !take {
                    continue;
                }
                let ns = tier.pick(3u64, 7u64);
                for sa in 0..ns {
                    for sb in ns..2 * ns {
                        let a = mk(&alpha::lcg_digits(la, sa));
                        let b = mk(&alpha::lcg_digits(lb, sb));
                        pair(ctx, &a, &b, la <= 8, true);
                        pair(ctx, &b, &a, la <= 8, true);
                    }
                }
                ctx.sample(|| format!("dense LCG digits: len(a)={} len(b)={} x 3x3 family members, both orders", la, lb));
            }
        }
    }
    // S9: the full scalar matrix: every primitive type x its extreme values x both operand orders x + - += -= on BigInt of
    // both signs (results that change sign or length included) and, for the unsigned types, on BigUint
    if ctx.space("S9") {
        let mags: Vec<Vec<u64>> = vec![vec![], vec![1], vec![2], vec![0x7fff_ffff], vec![0xffff_ffff], vec![alpha::H - 1], vec![alpha::H], vec![alpha::H + 1], vec![alpha::M - 1], vec![alpha::M], vec![0, 1], vec![1, 1], vec![alpha::M, alpha::H - 1], vec![0, alpha::H], vec![alpha::M, alpha::M], vec![0, 0, 1], vec![1, 0, 1], alpha::lcg_digits(5, 9)];
        let edge: Vec<i128> = vec![0, 1, 2, -1, -2, 127, 128, -128, -129, 255, 256, 32767, 32768, -32768, 65535, 65536, (1 << 31) - 1, 1 << 31, -(1 << 31), (1 << 32) - 1, 1 << 32, (1 << 63) - 1, 1 << 63, -(1 << 63), -(1 << 63) - 1, (1 << 64) - 1, 1 << 64, (1 << 64) + 1, -(1 << 64), i128::MAX, i128::MIN, i128::MIN + 1];
        macro_rules! scalar_int {
            ($T:ty, $tn:expr, $x:expr, $xi:expr, $t:expr) => {{
                if let Ok(t) = <$T>::try_from($t) {
                    let ti = Int::from_i128($t);
                    let (sum, dif, rdif) = ($xi.add(&ti), $xi.sub(&ti), ti.sub($xi));
                    let args = || vec![format!("x={}", $xi.to_hex()), format!("s={} ({})", $t, $tn)];
                    let r = call(ctx, || $x + t);
                    expect_int(ctx, concat!("BigInt &x+", $tn), &args, r, &sum);
                    let r = call(ctx, || t + $x);
                    expect_int(ctx, concat!("BigInt ", $tn, "+&x"), &args, r, &sum);
                    let r = call(ctx, || $x.clone() + t);
                    expect_int(ctx, concat!("BigInt x+", $tn), &args, r, &sum);
                    let r = call(ctx, || t + $x.clone());
                    expect_int(ctx, concat!("BigInt ", $tn, "+x"), &args, r, &sum);
                    let r = call(ctx, || $x - t);
                    expect_int(ctx, concat!("BigInt &x-", $tn), &args, r, &dif);
                    let r = call(ctx, || $x.clone() - t);
                    expect_int(ctx, concat!("BigInt x-", $tn), &args, r, &dif);
                    let r = call(ctx, || t - $x);
                    expect_int(ctx, concat!("BigInt ", $tn, "-&x"), &args, r, &rdif);
                    let r = call(ctx, || t - $x.clone());
                    expect_int(ctx, concat!("BigInt ", $tn, "-x"), &args, r, &rdif);
                    let r = call(ctx, || {
                        let mut y = $x.clone();
                        y += t;
                        y
                    });
                    expect_int(ctx, concat!("BigInt x+=", $tn), &args, r, &sum);
                    let r = call(ctx, || {
                        let mut y = $x.clone();
                        y -= t;
                        y
                    });
                    expect_int(ctx, concat!("BigInt x-=", $tn), &args, r, &dif);
                }
            }};
        }
        macro_rules! scalar_uint {
            ($T:ty, $tn:expr, $u:expr, $un:expr, $t:expr) => {{
                if let Ok(t) = <$T>::try_from($t) {
                    let tn = Nat::from_u128($t as u128);
                    let sum = $un.add(&tn);
                    let args = || vec![format!("a={}", $un.to_hex()), format!("s={} ({})", $t, $tn)];
                    let r = call(ctx, || $u + t);
                    expect_nat(ctx, concat!("BigUint &a+", $tn), &args, r, &sum);
                    let r = call(ctx, || t + $u.clone());
                    expect_nat(ctx, concat!("BigUint ", $tn, "+a"), &args, r, &sum);
                    let r = call(ctx, || {
                        let mut y = $u.clone();
                        y += t;
                        y
                    });
                    expect_nat(ctx, concat!("BigUint a+=", $tn), &args, r, &sum);
                    match $un.sub(&tn) {
                        Some(d) => {
                            let r = call(ctx, || $u - t);
                            expect_nat(ctx, concat!("BigUint &a-", $tn), &args, r, &d);
                            let r = call(ctx, || {
                                let mut y = $u.clone();
                                y -= t;
                                y
                            });
                            expect_nat(ctx, concat!("BigUint a-=", $tn), &args, r, &d);
                        }
                        None => {
                            let r = call(ctx, || $u - t);
                            expect_panic(ctx, concat!("BigUint &a-", $tn, " (a<s)"), &args, r);
                            let r = call(ctx, || {
                                let mut y = $u.clone();
                                y -= t;
                                y
                            });
                            expect_panic(ctx, concat!("BigUint a-=", $tn, " (a<s)"), &args, r);
                        }
                    }
                    match tn.sub($un) {
                        Some(d) => {
                            let r = call(ctx, || t - $u);
                            expect_nat(ctx, concat!("BigUint ", $tn, "-&a"), &args, r, &d);
                            let r = call(ctx, || t - $u.clone());
                            expect_nat(ctx, concat!("BigUint ", $tn, "-a"), &args, r, &d);
                        }
                        None => {
                            let r = call(ctx, || t - $u);
                            expect_panic(ctx, concat!("BigUint ", $tn, "-&a (s<a)"), &args, r);
                        }
                    }
                }
            }};
        }
        for (i, d) in mags.iter().enumerate() {
            if !ctx.mine(i as u64) {
                continue;
            }
            let un = Nat::from_digits(d);
            let u = bu(d);
            for neg in [false, true] {
                let xi = Int::new(neg, un.clone());
                let x = bi_int(&xi);
                for &t in &edge {
                    ctx.case();
                    ctx.nontrivial(1);
                    scalar_int!(i8, "i8", &x, &xi, t);
                    scalar_int!(i16, "i16", &x, &xi, t);
                    scalar_int!(i32, "i32", &x, &xi, t);
                    scalar_int!(i64, "i64", &x, &xi, t);
                    scalar_int!(i128, "i128", &x, &xi, t);
                    scalar_int!(isize, "isize", &x, &xi, t);
                    scalar_int!(u8, "u8", &x, &xi, t);
                    scalar_int!(u16, "u16", &x, &xi, t);
                    scalar_int!(u32, "u32", &x, &xi, t);
                    scalar_int!(u64, "u64", &x, &xi, t);
                    scalar_int!(u128, "u128", &x, &xi, t);
                    scalar_int!(usize, "usize", &x, &xi, t);
                    if !neg && t >= 0 {
                        scalar_uint!(u8, "u8", &u, &un, t);
                        scalar_uint!(u16, "u16", &u, &un, t);
                        scalar_uint!(u32, "u32", &u, &un, t);
                        scalar_uint!(u64, "u64", &u, &un, t);
                        scalar_uint!(u128, "u128", &u, &un, t);
                        scalar_uint!(usize, "usize", &u, &un, t);
                    }
                }
            }
            ctx.sample(|| format!("|x|={} (both signs) x {} edge scalars x 12 primitive types x 10 add/sub forms (BigInt) + 7 (BigUint)", un.to_hex(), edge.len()));
        }
    }
    // S8: half-digit value structure: Dense(S16,2)^2 (digits around 2^31, 2^32, 2^33, 2^63, all-ones / all-zero halves)
    {
        let s8: Vec<Op> = alpha::dense(&alpha::SIGMA16, 2).iter().map(|d| mk(d)).collect();
        square(ctx, "S8", &s8, 2, true);
    }
    // S7: long operands (carry / borrow chains across more than a thousand digits, lengths around multiples of the 5-digit block)
    if ctx.space("S7") {
        let lens: Vec<usize> = tier.pick(vec![64, 255, 1023, 1025, 1100], vec![64, 255, 256, 1023, 1024, 1025, 1100, 4099]);
        let mut ops: Vec<Op> = Vec::new();
        for &l in &lens {
            ops.push(mk(&vec![alpha::M; l]));
            let mut v = vec![0u64; l];
            v[l - 1] = 1;
            ops.push(mk(&v));
            ops.push(mk(&alpha::lcg_digits(l, 11)));
            let mut w = vec![alpha::M; l];
            w[0] = 1;
            w[l / 2] = 0;
            ops.push(mk(&w));
        }
        ops.push(mk(&[1]));
        ops.push(mk(&[alpha::M]));
        for (i, a) in ops.iter().enumerate() {
            if !ctx.mine(i as u64) {
                continue;
            }
            for b in ops.iter() {
                pair(ctx, a, b, true, true);
            }
            ctx.sample(|| format!("a of {} digits against {} long operands (all-ones, 2^(64(l-1)), dense, holed) of lengths {:?}", a.d.len(), ops.len(), lens));
        }
    }
    // S6: the owning / in-place forms on operands whose buffer has spare capacity (results are written into a reused buffer)
    if ctx.space("S6") {
        let mut ops: Vec<Vec<u64>> = alpha::dense(&alpha::SIGMA5, 3);
        for l in 4..=tier.pick(12usize, 24usize) {
            ops.push(alpha::lcg_digits(l, 3));
            ops.push(vec![alpha::M; l]);
            let mut v = vec![0u64; l];
            v[l - 1] = 1;
            ops.push(v);
        }
        let ops: Vec<Op> = ops.iter().map(|d| mk(d)).collect();
        for (i, a) in ops.iter().enumerate() {
            if !ctx.mine(i as u64) {
                continue;
            }
            for (j, b) in ops.iter().enumerate() {
                ctx.inner(j as u64);
                ctx.case();
                let need = a.d.len().max(b.d.len()) + 3;
                let sum = a.n.add(&b.n);
                let diff = a.n.sub(&b.n);
                let (sa, capa) = with_slack(&a.u, need);
                let (sb, capb) = with_slack(&b.u, need);
                if capa >= need || capb >= need {
                    ctx.nontrivial(1);
                    ctx.goal("operand with spare capacity for the whole result");
                }
                let args = || vec![format!("a={}", a.n.to_hex()), format!("b={}", b.n.to_hex()), format!("capacity a={} b={}", capa, capb)];
                let r = call(ctx, || {
                    let mut x = with_slack(&a.u, need).0;
                    x += &b.u;
                    x
                });
                expect_nat(ctx, "BigUint slack a+=&b", &args, r, &sum);
                let r = call(ctx, || with_slack(&a.u, need).0 + &b.u);
                expect_nat(ctx, "BigUint slack a+&b", &args, r, &sum);
                let r = call(ctx, || &a.u + with_slack(&b.u, need).0);
                expect_nat(ctx, "BigUint &a+slack b", &args, r, &sum);
                let r = call(ctx, || with_slack(&a.u, need).0 + with_slack(&b.u, need).0);
                expect_nat(ctx, "BigUint slack a+slack b", &args, r, &sum);
                let r = call(ctx, || {
                    let mut t = -BigInt::from(with_slack(&a.u, need).0);
                    t -= BigInt::from(sb.clone());
                    t
                });
                expect_int(ctx, "BigInt slack -a-=b", &args, r, &Int::new(!sum.is_zero(), sum.clone()));
                let r = call(ctx, || {
                    let mut t = BigInt::from(with_slack(&a.u, need).0);
                    t += &-BigInt::from(b.u.clone());
                    t
                });
                let idiff = Int::from_nat(a.n.clone()).sub(&Int::from_nat(b.n.clone()));
                expect_int(ctx, "BigInt slack a+=&-b", &args, r, &idiff);
                let r = call(ctx, || &-BigInt::from(b.u.clone()) + BigInt::from(sa.clone()));
                expect_int(ctx, "BigInt &-b+slack a", &args, r, &idiff);
                match &diff {
                    Some(d) => {
                        let r = call(ctx, || {
                            let mut x = with_slack(&a.u, need).0;
                            x -= &b.u;
                            x
                        });
                        expect_nat(ctx, "BigUint slack a-=&b", &args, r, d);
                        let r = call(ctx, || with_slack(&a.u, need).0 - &b.u);
                        expect_nat(ctx, "BigUint slack a-&b", &args, r, d);
                        let r = call(ctx, || &a.u - with_slack(&b.u, need).0);
                        expect_nat(ctx, "BigUint &a-slack b", &args, r, d);
                        let r = call(ctx, || with_slack(&a.u, need).0 - with_slack(&b.u, need).0);
                        expect_nat(ctx, "BigUint slack a-slack b", &args, r, d);
                    }
                    None => {
                        if a.d.len() <= 6 {
                            let r = call(ctx, || {
                                let mut x = with_slack(&a.u, need).0;
                                x -= &b.u;
                                x
                            });
                            expect_panic(ctx, "BigUint slack a-=&b (a<b)", &args, r);
                            let r = call(ctx, || &a.u - with_slack(&b.u, need).0);
                            expect_panic(ctx, "BigUint &a-slack b (a<b)", &args, r);
                        }
                    }
                }
            }
            ctx.sample(|| format!("a={} (and every b) with spare-capacity buffers: += -= and the owning + - forms of BigUint and BigInt", a.n.to_hex()));
        }
    }
    // S5: scalar addends / subtrahends (u32, u64, u128 on BigUint; i64, i128 on BigInt), every form
    if ctx.space("S5") {
        let mut bigs: Vec<Vec<u64>> = alpha::dense(&alpha::SIGMA5, 4);
        bigs.extend(alpha::runs(&alpha::SIGMA5, 2, tier.pick(8, 12)).into_iter().filter(|d| d.len() > 4));
        let scal: Vec<u128> = vec![0, 1, 0xffff_ffff, 0x1_0000_0000, alpha::H as u128, alpha::M as u128, 1u128 << 64, (1u128 << 64) + 1, (alpha::M as u128) << 64, 1u128 << 127, u128::MAX - 1, u128::MAX];
        // every 2^k-1, 2^k, 2^k+1 (thresholds of the one-digit / two-digit scalar paths are among them)
        let mut scal = scal;
        for k in 0..128u32 {
            for t in [(1u128 << k) - 1, 1u128 << k, (1u128 << k).wrapping_add(1)] {
                if !scal.contains(&t) {
                    scal.push(t);
                }
            }
        }
        for (i, d) in bigs.iter().enumerate() {
            if !ctx.mine(i as u64) {
                continue;
            }
            let a = mk(d);
            for &t in &scal {
                ctx.case();
                let tn = Nat::from_u128(t);
                let sum = a.n.add(&tn);
                if !a.n.is_zero() && t > 1 {
                    ctx.nontrivial(1);
                }
                let args = || vec![format!("a={}", a.n.to_hex()), format!("s={:x}", t)];
                let r = call(ctx, || &a.u + t);
                expect_nat(ctx, "BigUint &a+u128", &args, r, &sum);
                let r = call(ctx, || t + a.u.clone());
                expect_nat(ctx, "BigUint u128+a", &args, r, &sum);
                let r = call(ctx, || {
                    let mut x = a.u.clone();
                    x += t;
                    x
                });
                expect_nat(ctx, "BigUint a+=u128", &args, r, &sum);
                if let Ok(t64) = u64::try_from(t) {
                    let r = call(ctx, || &a.u + t64);
                    expect_nat(ctx, "BigUint &a+u64", &args, r, &sum);
                    let r = call(ctx, || {
                        let mut x = a.u.clone();
                        x += t64;
                        x
                    });
                    expect_nat(ctx, "BigUint a+=u64", &args, r, &sum);
                    if let Ok(t32) = u32::try_from(t) {
                        let r = call(ctx, || t32 + &a.u);
                        expect_nat(ctx, "BigUint u32+&a", &args, r, &sum);
                        let r = call(ctx, || {
                            let mut x = a.u.clone();
                            x += t32;
                            x
                        });
                        expect_nat(ctx, "BigUint a+=u32", &args, r, &sum);
                    }
                }
                // subtraction both ways
                match a.n.sub(&tn) {
                    Some(dv) => {
                        let r = call(ctx, || &a.u - t);
                        expect_nat(ctx, "BigUint &a-u128", &args, r, &dv);
                        let r = call(ctx, || {
                            let mut x = a.u.clone();
                            x -= t;
                            x
                        });
                        expect_nat(ctx, "BigUint a-=u128", &args, r, &dv);
                        if let Ok(t64) = u64::try_from(t) {
                            let r = call(ctx, || a.u.clone() - t64);
                            expect_nat(ctx, "BigUint a-u64", &args, r, &dv);
                        }
                    }
                    None => {
                        if a.d.len() <= 2 {
                            let r = call(ctx, || &a.u - t);
                            expect_panic(ctx, "BigUint &a-u128 (a<s)", &args, r);
                        }
                    }
                }
                if let Some(dv) = tn.sub(&a.n) {
                    let r = call(ctx, || t - &a.u);
                    expect_nat(ctx, "BigUint u128-&a", &args, r, &dv);
                    if let Ok(t64) = u64::try_from(t) {
                        let r = call(ctx, || t64 - a.u.clone());
                        expect_nat(ctx, "BigUint u64-a", &args, r, &dv);
                    }
                }
                // BigInt with signed scalars (both signs of both operands)
                for (sa, x) in [(false, &a.pos), (true, &a.neg)] {
                    let xi = Int::new(sa, a.n.clone());
                    for ts in [t as i128, (t as i128).wrapping_neg()] {
                        let ti = Int::from_i128(ts);
                        let iargs = || vec![format!("x={}", xi.to_hex()), format!("s={}", ts)];
                        let r = call(ctx, || x + ts);
                        expect_int(ctx, "BigInt &x+i128", &iargs, r, &xi.add(&ti));
                        let r = call(ctx, || x - ts);
                        expect_int(ctx, "BigInt &x-i128", &iargs, r, &xi.sub(&ti));
                        let r = call(ctx, || ts - x);
                        expect_int(ctx, "BigInt i128-&x", &iargs, r, &ti.sub(&xi));
                        let r = call(ctx, || {
                            let mut y = x.clone();
                            y += ts;
                            y
                        });
                        expect_int(ctx, "BigInt x+=i128", &iargs, r, &xi.add(&ti));
                        let r = call(ctx, || {
                            let mut y = x.clone();
                            y -= ts;
                            y
                        });
                        expect_int(ctx, "BigInt x-=i128", &iargs, r, &xi.sub(&ti));
                        if let Ok(t64) = i64::try_from(ts) {
                            let r = call(ctx, || x + t64);
                            expect_int(ctx, "BigInt &x+i64", &iargs, r, &xi.add(&ti));
                            let r = call(ctx, || t64 - x.clone());
                            expect_int(ctx, "BigInt i64-x", &iargs, r, &ti.sub(&xi));
                        }
                    }
                    let tu = Int::from_nat(tn.clone());
                    let iargs = || vec![format!("x={}", xi.to_hex()), format!("s={:x}u128", t)];
                    let r = call(ctx, || x + t);
                    expect_int(ctx, "BigInt &x+u128", &iargs, r, &xi.add(&tu));
                    let r = call(ctx, || x - t);
                    expect_int(ctx, "BigInt &x-u128", &iargs, r, &xi.sub(&tu));
                    let r = call(ctx, || {
                        let mut y = x.clone();
                        y -= t;
                        y
                    });
                    expect_int(ctx, "BigInt x-=u128", &iargs, r, &xi.sub(&tu));
                }
            }
            ctx.sample(|| format!("a={} with 12 scalars: u32/u64/u128 add/sub forms on BigUint, i64/i128/u128 forms on +-a as BigInt", a.n.to_hex()));
        }
    }
    // S3: block-boundary family
    if ctx.space("S3") {
        let kb = tier.pick(2, 3);
        let mut outer = 0u64;
        for &lb in &[4usize, 5, 6, 9, 10, 11, 14, 15, 16, 20, 21] {
            let bs: Vec<Op> = alpha::runs_exact(&alpha::SIGMA5, kb, lb).iter().map(|d| mk(d)).collect();
            for &dl in &[0usize, 1, 5, 6] {
                let la = lb + dl;
                let as_: Vec<Op> = alpha::runs_exact(&alpha::SIGMA5, 2, la).iter().map(|d| mk(d)).collect();
                for a in &as_ {
                    let take = ctx.mine(outer);
                    outer += 1;
                    if !take {
                        continue;
                    }
                    for (j, b) in bs.iter().enumerate() {
                        ctx.inner(j as u64);
                        pair(ctx, a, b, false, true);
                        pair(ctx, b, a, false, true);
                    }
                    ctx.sample(|| format!("len(a)={} len(b)={} a={} x all b of Runs(S5,{},{})", la, lb, a.n.to_hex(), kb, lb));
                }
            }
        }
    }
}

fn main() {
    runner::main(SPEC, body)
}
