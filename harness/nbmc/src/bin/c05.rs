//! C05 -- modular exponentiation and modular inverse are exact for every modulus.
use nbmc::*;

const SPEC: Spec = Spec {
    id: "C05",
    engine: "E-prod (exhaustive product enumeration of (base, exponent, modulus) triples, real code vs refint)",
    rule: "every (modulus, base, exponent) triple of the stated families through BigUint::modpow and, for the four sign pairs, BigInt::modpow, compared with refint's plain left-to-right square-and-multiply (no windows, no Montgomery form); modinv over every pair of the stated squares decided by refint gcd and verified by b*x = 1 (mod m) and the interval; non-trivial = modulus >= 2 digits or exponent >= 2 digits (modpow), |m| > 1 and b != 0 (modinv)",
    assumptions: &[
        "moduli/bases/exponents come from the stated finite families built around the branch points (odd/even modulus, base longer than modulus, zero 4-bit windows, zero low exponent digits, top digit 1/3/2^63/2^64-1)",
        "refint modpow/gcd (shift-subtract division) is trusted; cross-checked against Python pow()/gcd on a transcript slice",
    ],
    bounds_quick: "P1 moduli Dense(S8,2)+40 three-digit x ~35 bases per modulus x 25 exponents (<= 3 digits); P2 BigInt sign pairs on every 2nd modulus x 20 bases x 25 exponents; P3 panic clauses; I1 all (b,m) in [-200,200]^2; I2 Dense(S8,3)xDense(S8,2) x 4 sign pairs; I3 zero modulus; P5 exponents of 17/34/40 digits (up to 2560 bits) x 6 small moduli x 3 shapes, moduli of 33/40 digits (odd and even) x 3 base/exponent shapes, BigUint and negative BigInt forms; P6 every modulus of Dense(S16,2) x 20 bases x 6 exponents (half-digit alphabet)",
    bounds_thorough: "P1 moduli as quick + all 3-digit Dense(S8,3) + 72 patterned 4/5/8-digit moduli (odd and even) x ~35 bases x 25 exponents; P2 all moduli x 40 bases x 25 exponents x 4 sign pairs; P3; I1 [-1000,1000]^2; I2 Dense(S8,4)xDense(S8,2) x 4 sign pairs; I3; P5 exponents and moduli up to 130 digits",
    hang_secs: 120,
    probes: Some(probes),
    max_workers: 16,
};

fn moduli() -> Vec<Vec<u64>> {
    let mut v: Vec<Vec<u64>> = alpha::dense(&alpha::SIGMA8, 2).into_iter().filter(|d| !d.is_empty()).collect();
    v.push(vec![3]);
    v.push(vec![0xffff_ffff]);
    for &top in &[1u64, 3, alpha::H, alpha::M] {
        for &mid in &[0u64, alpha::M] {
            for &low in &[1u64, 2, 3, alpha::M - 1, alpha::M] {
                v.push(vec![low, mid, top]);
            }
        }
    }
    v
}

fn bases_for(m: &Nat) -> Vec<Nat> {
    let one = Nat::one();
    let l = m.len();
    let mut v = vec![Nat::zero(), one.clone(), m.clone(), m.add(&one), m.add(m).sub(&one).unwrap()];
    if let Some(x) = m.sub(&one) {
        v.push(x);
    }
    for k in [l.saturating_sub(1), l, l + 1, l + 2] {
        if k > 0 {
            v.push(Nat::from_digits(&vec![alpha::M; k]));
        }
    }
    // one digit longer with small top digit; long base with zero low digits
    let mut d = vec![0u64; l];
    d.push(1);
    v.push(Nat::from_digits(&d));
    for d in alpha::dense(&alpha::SIGMA5, 2) {
        v.push(Nat::from_digits(&d));
    }
    v.sort_by(|a, b| a.cmp(b));
    v.dedup();
    v
}

fn exponents() -> Vec<Vec<u64>> {
    let m = alpha::M;
    vec![
        vec![],
        vec![1],
        vec![2],
        vec![3],
        vec![15],
        vec![16],
        vec![17],
        vec![1 << 63],
        vec![m],
        vec![0xF0F0_F0F0_F0F0_F0F0],
        vec![0x1000_0000_0000_0001],
        vec![0x0000_000F_0000_0000],
        vec![0, 1],
        vec![1, 1],
        vec![0, 2],
        vec![m, m],
        vec![0, 1 << 63],
        vec![0x0F0F_0F0F_0F0F_0F0F, 0xF000_0000_0000_000F],
        vec![1 << 60, 1],
        // three digits
        vec![0, 0, 1],
        vec![0, 0, 3],
        vec![1 << 60, 0, 1],
        vec![m, 0, m],
        vec![1, 0, 1 << 63],
        vec![0, m, 1],
    ]
}

fn modpow_case(ctx: &mut Ctx, b: &Nat, e: &Nat, m: &Nat, bu_b: &BigUint, bu_e: &BigUint, bu_m: &BigUint) -> Nat {
    ctx.case();
    let want = b.modpow(e, m);
    if m.len() >= 2 || e.len() >= 2 {
        ctx.nontrivial(1);
    }
    ctx.tr(|| format!("modpow {} {} {} {}", b.to_hex(), e.to_hex(), m.to_hex(), want.to_hex()));
    ctx.outcome_digits(want.digits());
    let args = || vec![format!("b={}", b.to_hex()), format!("e={}", e.to_hex()), format!("m={}", m.to_hex())];
    let r = call(ctx, || bu_b.modpow(bu_e, bu_m));
    expect_nat(ctx, "BigUint modpow", &args, r, &want);
    want
}

fn body(ctx: &mut Ctx) {
    let tier = ctx.tier;
    ctx.set_transcript_every(tier.pick(11, 101));
    let mut mods = moduli();
    if tier == Tier::Thorough {
        for d in alpha::dense(&alpha::SIGMA8, 3) {
            if d.len() == 3 && !mods.contains(&d) {
                mods.push(d);
            }
        }
        for p in 0..alpha::NPAT {
            for l in [4usize, 5, 8] {
                let mut d = alpha::pat(l, p);
                mods.push(d.clone());
                d[0] |= 1;
                mods.push(d);
            }
        }
    }
    let exps = exponents();
    // ---- P1
    if ctx.space("P1") {
        for (i, md) in mods.iter().enumerate() {
            if !ctx.mine(i as u64) {
                continue;
            }
            let m = Nat::from_digits(md);
            let bm = bu_nat(&m);
            let bases = bases_for(&m);
            let mut j = 0;
            for b in &bases {
                let bb = bu_nat(b);
                for ed in &exps {
                    ctx.inner(j);
                    j += 1;
                    let e = Nat::from_digits(ed);
                    let be = bu_nat(&e);
                    modpow_case(ctx, b, &e, &m, &bb, &be, &bm);
                }
            }
            ctx.sample(|| format!("m={} x {} bases x {} exponents", m.to_hex(), bases.len(), exps.len()));
        }
    }
    // ---- P2 BigInt sign pairs
    if ctx.space("P2") {
        let step_m = tier.pick(2, 1);
        let nb = tier.pick(20, 40);
        let ne = 25;
        let msel: Vec<&Vec<u64>> = mods.iter().step_by(step_m).collect();
        for (i, md) in msel.iter().enumerate() {
            if !ctx.mine(i as u64) {
                continue;
            }
            let m = Nat::from_digits(md);
            let bases = bases_for(&m);
            let mut j = 0;
            for b in bases.iter().take(nb) {
                for ed in exps.iter().take(ne) {
                    let e = Nat::from_digits(ed);
                    let r0 = b.modpow(&e, &m);
                    for (sb, sm) in [(false, false), (false, true), (true, false), (true, true)] {
                        ctx.inner(j);
                        j += 1;
                        ctx.case();
                        ctx.nontrivial(1);
                        // floor-mod representative carrying the sign of m
                        let neg_pow = sb && !e.is_even() && !b.is_zero();
                        let pos_rep = if neg_pow && !r0.is_zero() { m.sub(&r0).unwrap() } else { r0.clone() };
                        let want = if sm && !pos_rep.is_zero() { Int::new(true, m.sub(&pos_rep).unwrap()) } else { Int::new(false, pos_rep) };
                        let x = bi_int(&Int::new(sb, b.clone()));
                        let y = bi_int(&Int::new(false, e.clone()));
                        let z = bi_int(&Int::new(sm, m.clone()));
                        let args = || vec![format!("b={}{}", if sb { "-" } else { "" }, b.to_hex()), format!("e={}", e.to_hex()), format!("m={}{}", if sm { "-" } else { "" }, m.to_hex())];
                        let r = call(ctx, || x.modpow(&y, &z));
                        expect_int(ctx, "BigInt modpow", &args, r, &want);
                    }
                }
            }
            ctx.sample(|| format!("BigInt modpow m=+-{} x {} bases x {} exponents x 4 sign pairs", m.to_hex(), nb, ne));
        }
    }
    // ---- P4 dense LCG moduli (odd and even), bases and exponents
    if ctx.space("P4") {
        let lmax = tier.pick(5usize, 8usize);
        let mut o = 0u64;
        for lm in 1..=lmax {
            for salt in 0..6u64 {
                for odd in [true, false] {
                    let take = ctx.mine(o);
                    o += 1;
                    if !take {
                        continue;
                    }
                    let mut md = alpha::lcg_digits(lm, salt);
                    if odd {
                        md[0] |= 1;
                    } else {
                        md[0] &= !1;
                        if lm == 1 && md[0] == 0 {
                            md[0] = 6;
                        }
                    }
                    let m = Nat::from_digits(&md);
                    let bm = bu_nat(&m);
                    for lb in [lm.saturating_sub(1).max(1), lm, lm + 1, lm + 3] {
                        for le in 1..=3usize {
                            for es in 0..2u64 {
                                let b = Nat::from_digits(&alpha::lcg_digits(lb, 40 + salt));
                                let mut ed = alpha::lcg_digits(le, 80 + es);
                                if es == 1 {
                                    ed[0] = 0; // zero low exponent digit
                                }
                                let e = Nat::from_digits(&ed);
                                modpow_case(ctx, &b, &e, &m, &bu_nat(&b), &bu_nat(&e), &bm);
                            }
                        }
                    }
                    ctx.sample(|| format!("dense LCG modulus of {} digits ({}), bases of 4 lengths, exponents of 1..3 digits", lm, if odd { "odd" } else { "even" }));
                }
            }
        }
    }
    // ---- P6 half-digit value structure: every 1- and 2-digit modulus over the 16-letter alphabet x bases over it x a few exponents
    if ctx.space("P6") {
        let mods: Vec<Vec<u64>> = alpha::dense(&alpha::SIGMA16, 2).into_iter().filter(|d| !d.is_empty()).collect();
        let bases: Vec<Vec<u64>> = alpha::dense(&alpha::SIGMA16, 1).into_iter().chain([vec![alpha::M, alpha::M], vec![0x1_0000_0000, 0xffff_ffff_0000_0000], vec![1, 0, 1]]).collect();
        let exps: Vec<Vec<u64>> = vec![vec![2], vec![3], vec![0x11], vec![0xffff_ffff], vec![alpha::M], vec![0x1_0000_0001, 1]];
        for (i, md) in mods.iter().enumerate() {
            if !ctx.mine(i as u64) {
                continue;
            }
            let m = Nat::from_digits(md);
            let bm = bu_nat(&m);
            for bd in &bases {
                let b = Nat::from_digits(bd);
                let bb = bu_nat(&b);
                for ed in &exps {
                    let e = Nat::from_digits(ed);
                    modpow_case(ctx, &b, &e, &m, &bb, &bu_nat(&e), &bm);
                }
            }
            ctx.sample(|| format!("m={} x {} bases x {} exponents (16-letter half-digit alphabet)", m.to_hex(), bases.len(), exps.len()));
        }
    }
    // ---- P5 long exponents (thousands of exponent bits) and long moduli
    if ctx.space("P5") {
        let mut cases: Vec<(Vec<u64>, Vec<u64>, Vec<u64>)> = Vec::new(); // (modulus, base, exponent)
        let les: Vec<usize> = tier.pick(vec![17, 34, 40], vec![17, 33, 34, 40, 70, 130]);
        for &le in &les {
            for (mi, md) in [vec![0xFFFF_FFFF_FFFF_FFC5u64], vec![6], vec![alpha::M, 5], vec![3, 0, alpha::H], vec![0, 2], vec![4, alpha::M, 9]].into_iter().enumerate() {
                let mut e1 = alpha::lcg_digits(le, 7 + mi as u64);
                e1[le - 1] |= 1;
                cases.push((md.clone(), alpha::lcg_digits(md.len() + 1, 3), e1));
                cases.push((md.clone(), vec![2], vec![alpha::M; le]));
                let mut e3 = vec![0u64; le];
                e3[le - 1] = 1;
                cases.push((md, vec![alpha::M], e3));
            }
        }
        let lms: Vec<usize> = tier.pick(vec![33, 40], vec![33, 40, 70, 130]);
        for &lm in &lms {
            for odd in [true, false] {
                let mut md = alpha::lcg_digits(lm, 21);
                if odd {
                    md[0] |= 1;
                } else {
                    md[0] &= !1;
                }
                cases.push((md.clone(), alpha::lcg_digits(lm, 22), vec![0x1_0000_0001]));
                cases.push((md.clone(), alpha::lcg_digits(lm + 2, 23), vec![0, 1]));
                cases.push((md, vec![3], alpha::lcg_digits(2, 24)));
            }
        }
        for (o, (md, bd, ed)) in cases.iter().enumerate() {
            if !ctx.mine(o as u64) {
                continue;
            }
            let (m, b, e) = (Nat::from_digits(md), Nat::from_digits(bd), Nat::from_digits(ed));
            modpow_case(ctx, &b, &e, &m, &bu_nat(&b), &bu_nat(&e), &bu_nat(&m));
            // BigInt form: negative base, negative modulus (floor-mod representative carries the sign of m)
            let want = b.modpow(&e, &m);
            let args = || vec![format!("b=-{}", b.to_hex()), format!("e={}", e.to_hex()), format!("m=-{}", m.to_hex())];
            let wneg = if e.is_even() { Int::from_nat(want.clone()) } else { Int::new(true, want.clone()) }; // (-b)^e mod m, truncated
            // floor-mod with modulus -m: representative in (-m, 0]
            let wi = {
                wneg.divrem_floor(&Int::new(true, m.clone())).1
            };
            let r = call(ctx, || (-BigInt::from(bu_nat(&b))).modpow(&BigInt::from(bu_nat(&e)), &-BigInt::from(bu_nat(&m))));
            expect_int(ctx, "BigInt modpow (-b, e, -m)", &args, r, &wi);
            if o % 9 == 0 {
                ctx.sample(|| format!("modulus of {} digits, base of {} digits, exponent of {} digits ({} bits)", md.len(), bd.len(), ed.len(), e.bits()));
            }
        }
    }
    // ---- P3 panic clauses
    if ctx.space("P3") && ctx.mine(0) {
        for md in mods.iter().step_by(7) {
            let m = Nat::from_digits(md);
            for ed in exps.iter().skip(1).step_by(4) {
                let e = Nat::from_digits(ed);
                ctx.case();
                ctx.nontrivial(1);
                let args = || vec![format!("e={}", e.to_hex()), format!("m={}", m.to_hex())];
                let b = bu(&[5, 7]);
                let r = call(ctx, || b.modpow(&bu_nat(&e), &BigUint::ZERO));
                expect_panic(ctx, "BigUint modpow(zero modulus)", &args, r);
                let bi = BigInt::from(b.clone());
                let r = call(ctx, || bi.modpow(&bi_int(&Int::new(false, e.clone())), &BigInt::ZERO));
                expect_panic(ctx, "BigInt modpow(zero modulus)", &args, r);
                let r = call(ctx, || bi.modpow(&bi_int(&Int::new(true, e.clone())), &bi_int(&Int::new(false, m.clone()))));
                expect_panic(ctx, "BigInt modpow(negative exponent)", &args, r);
                let r = call(ctx, || (-bi.clone()).modpow(&bi_int(&Int::new(true, e.clone())), &bi_int(&Int::new(true, m.clone()))));
                expect_panic(ctx, "BigInt modpow(negative exponent, negative modulus)", &args, r);
            }
        }
        // zero exponent with zero modulus still panics; e = 0 with m = +-1 is 0
        let r = call(ctx, || bu(&[3]).modpow(&BigUint::ZERO, &BigUint::ZERO));
        expect_panic(ctx, "BigUint modpow(e=0, zero modulus)", &|| vec![], r);
        ctx.sample(|| "zero modulus / negative exponent must panic for both types".to_string());
    }
    // ---- modinv
    let modinv_case = |ctx: &mut Ctx, b: &Int, m: &Int| {
        ctx.case();
        if m.mag.len() > 0 && !m.mag.is_one() && !b.is_zero() {
            ctx.nontrivial(1);
        }
        let g = b.mag.gcd(&m.mag);
        ctx.tr(|| format!("gcd {} {} {}", b.mag.to_hex(), m.mag.to_hex(), g.to_hex()));
        let args = || vec![format!("b={}", b.to_hex()), format!("m={}", m.to_hex())];
        let check = |ctx: &mut Ctx, form: &str, got: Option<Int>| {
            ctx.compared(1);
            match (&got, g.is_one()) {
                (None, false) => {}
                (None, true) => ctx.viol(format!("{} {}", form, args().join(" ")), "modinv returned None although gcd = 1", args(), "Some".into(), "None".into()),
                (Some(x), false) => ctx.viol(format!("{} {}", form, args().join(" ")), "modinv returned Some although gcd != 1", args(), "None".into(), x.to_hex()),
                (Some(x), true) => {
                    // interval: [0, m) for m > 0, (m, 0] for m < 0
                    let in_iv = if m.neg { (x.neg || x.is_zero()) && x.mag.lt(&m.mag) } else { !x.neg && x.mag.lt(&m.mag) };
                    // b*x - 1 divisible by |m|
                    let t = b.mul(x).sub(&Int::from_i64(1));
                    let cong = t.mag.divrem(&m.mag).1.is_zero();
                    if !in_iv || !cong {
                        ctx.viol(
                            format!("{} {}", form, args().join(" ")),
                            if !in_iv { "modinv result outside the documented interval" } else { "b*x is not 1 modulo m" },
                            args(),
                            "x with b*x = 1 (mod m) in [0,m) resp. (m,0]".into(),
                            x.to_hex(),
                        );
                    }
                    ctx.outcome_digits(x.mag.digits());
                }
            }
        };
        let x = bi_int(b);
        let y = bi_int(m);
        match call(ctx, || x.modinv(&y)) {
            Out::Ret(r) => {
                let ri = r.as_ref().map(|v| int_chk(ctx, "BigInt modinv", v));
                check(ctx, "BigInt modinv", ri);
            }
            Out::Panic(p) => ctx.viol(format!("BigInt modinv {}", args().join(" ")), "modinv panicked", args(), "Some/None".into(), p),
        }
        if !b.neg && !m.neg {
            let xu = bu_nat(&b.mag);
            let yu = bu_nat(&m.mag);
            match call(ctx, || xu.modinv(&yu)) {
                Out::Ret(r) => {
                    let ri = r.as_ref().map(|v| Int::from_nat(nat_chk(ctx, "BigUint modinv", v)));
                    check(ctx, "BigUint modinv", ri);
                }
                Out::Panic(p) => ctx.viol(format!("BigUint modinv {}", args().join(" ")), "modinv panicked", args(), "Some/None".into(), p),
            }
        }
    };
    if ctx.space("I1") {
        let n = tier.pick(200i64, 1000i64);
        for (i, b) in (-n..=n).enumerate() {
            if !ctx.mine(i as u64) {
                continue;
            }
            for m in -n..=n {
                if m == 0 {
                    continue;
                }
                modinv_case(ctx, &Int::from_i64(b), &Int::from_i64(m));
            }
            ctx.sample(|| format!("b={} against every modulus in [-{},{}] except 0", b, n, n));
        }
    }
    if ctx.space("I2") {
        let d2 = alpha::dense(&alpha::SIGMA8, 2);
        let bs = alpha::dense(&alpha::SIGMA8, tier.pick(3, 4));
        for (i, bd) in bs.iter().enumerate() {
            if !ctx.mine(i as u64) {
                continue;
            }
            for md in &d2 {
                if md.is_empty() {
                    continue;
                }
                for (sb, sm) in [(false, false), (false, true), (true, false), (true, true)] {
                    modinv_case(ctx, &Int::new(sb, Nat::from_digits(bd)), &Int::new(sm, Nat::from_digits(md)));
                }
            }
            ctx.sample(|| format!("b=+-{} against +-Dense(S8,2) moduli", hexs(bd)));
        }
    }
    if ctx.space("I3") && ctx.mine(0) {
        for bd in alpha::dense(&alpha::SIGMA5, 2) {
            ctx.case();
            ctx.nontrivial(1);
            let b = Nat::from_digits(&bd);
            let args = || vec![format!("b={}", b.to_hex()), "m=0".to_string()];
            let r = call(ctx, || bu_nat(&b).modinv(&BigUint::ZERO));
            expect_panic(ctx, "BigUint modinv(zero modulus)", &args, r);
            let r = call(ctx, || bi_int(&Int::new(true, b.clone())).modinv(&BigInt::ZERO));
            expect_panic(ctx, "BigInt modinv(zero modulus)", &args, r);
        }
        ctx.sample(|| "modinv with zero modulus must panic".to_string());
    }
}

fn main() {
    runner::main(SPEC, body)
}
