//! C12 -- exponentiation is exact for every exponent type.
use nbmc::*;
use num_traits::Pow;

const SPEC: Spec = Spec {
    id: "C12",
    engine: "E-prod (exhaustive enumeration of bases x exponents x exponent types; real code vs a running product in refint)",
    rule: "every (base, exponent) of the stated families through Pow for each exponent type (u8,u16,u32,u64,usize,u128,BigUint; base and exponent by value and by reference) and the inherent pow(u32), compared with refint's running product p_e = p_(e-1)*x (one schoolbook multiplication per step), 0^0 = 1, negative exactly when x < 0 and e odd; non-trivial = |x| >= 2 and e >= 2",
    assumptions: &[
        "fixed base set (48 values incl. 2- and 3-digit patterns, both signs); exponents bounded (every e up to the bound, hence every trailing-zero / set-bit pattern below it)",
        "BigUint exponents beyond u128 are exercised only with bases 0 and +-1 (anything else must exhaust memory: out of scope)",
    ],
    bounds_quick: "48 bases x every e in 0..=200; bases 0,+-1,+-2 x every e < 4096; 11 sparse / long bases (2^k+1 for k in {320,1024,2048,4160}, 40- and 70-digit values) x every e up to 24..3; 17 edge exponents (2^8, 2^16, 2^32(+1), 2^63, 2^64-1, 2^64(+1), 2^65, 2^64(2^64-1), 2^128-1, 2^128(+1), 2^200(+1), ...) with bases 0,+-1 through the BigUint-exponent forms and every primitive exponent type the value fits (u16,u32,u64,usize,u128; BigUint and BigInt bases, value and reference)",
    bounds_thorough: "48 bases x every e in 0..=600 (3-digit bases up to e=300); bases 0,+-1,+-2 x every e < 16384; edge exponents",
    hang_secs: 60,
    probes: None,
    max_workers: 16,
};

fn bases() -> Vec<Int> {
    let mut v = vec![Int::zero()];
    for m in [vec![1u64], vec![2], vec![3], vec![10], vec![0xffff_ffff], vec![0x1_0000_0000], vec![alpha::M], vec![0, 1], vec![1, 1], alpha::pat(2, 10), alpha::pat(3, 10), alpha::pat(3, 0), vec![0x8000_0000], vec![0x1_0000_0001], vec![0x1_ffff_ffff], vec![alpha::H - 1], vec![alpha::H], vec![alpha::H + 1], vec![0xffff_ffff_0000_0000], vec![0xffff_fffe_ffff_ffff], vec![alpha::M - 1], vec![alpha::M, 0xffff_ffff], vec![0, alpha::H]] {
        v.push(Int::new(false, Nat::from_digits(&m)));
        v.push(Int::new(true, Nat::from_digits(&m)));
    }
    v
}

macro_rules! pow_type {
    ($ctx:expr, $x:expr, $u:expr, $e:expr, $want:expr, $args:expr, $T:ty, $tn:expr) => {{
        if $e <= <$T>::MAX as u64 {
            let t = $e as $T;
            let r = call($ctx, || Pow::pow($x, t));
            expect_int($ctx, concat!("BigInt (&x).pow(", $tn, ")"), $args, r, $want);
            let r = call($ctx, || Pow::pow($x.clone(), t));
            expect_int($ctx, concat!("BigInt x.pow(", $tn, ")"), $args, r, $want);
            let r = call($ctx, || Pow::pow($x, &t));
            expect_int($ctx, concat!("BigInt (&x).pow(&", $tn, ")"), $args, r, $want);
            let r = call($ctx, || Pow::pow($x.clone(), &t));
            expect_int($ctx, concat!("BigInt x.pow(&", $tn, ")"), $args, r, $want);
            if let Some(u) = $u {
                let r = call($ctx, || Pow::pow(u, t));
                expect_nat($ctx, concat!("BigUint (&x).pow(", $tn, ")"), $args, r, &$want.mag);
                let r = call($ctx, || Pow::pow(u.clone(), t));
                expect_nat($ctx, concat!("BigUint x.pow(", $tn, ")"), $args, r, &$want.mag);
                let r = call($ctx, || Pow::pow(u, &t));
                expect_nat($ctx, concat!("BigUint (&x).pow(&", $tn, ")"), $args, r, &$want.mag);
                let r = call($ctx, || Pow::pow(u.clone(), &t));
                expect_nat($ctx, concat!("BigUint x.pow(&", $tn, ")"), $args, r, &$want.mag);
            }
        }
    }};
}

fn pow_case(ctx: &mut Ctx, b: &Int, x: &BigInt, u: &Option<BigUint>, e: u64, want: &Int) {
    ctx.case();
    if b.mag.bits() >= 2 && e >= 2 {
        ctx.nontrivial(1);
    }
    let args = || vec![format!("x={}", b.to_hex()), format!("e={}", e)];
    if e <= 40 && want.mag.len() <= 8 {
        ctx.tr(|| format!("pow {} {} {}", b.to_hex(), e, want.to_hex()));
    }
    ctx.outcome_digits(want.mag.digits());
    let uo = u.as_ref();
    pow_type!(ctx, x, uo, e, want, &args, u8, "u8");
    pow_type!(ctx, x, uo, e, want, &args, u16, "u16");
    pow_type!(ctx, x, uo, e, want, &args, u32, "u32");
    pow_type!(ctx, x, uo, e, want, &args, u64, "u64");
    pow_type!(ctx, x, uo, e, want, &args, usize, "usize");
    pow_type!(ctx, x, uo, e, want, &args, u128, "u128");
    let eb = BigUint::from(e);
    let r = call(ctx, || Pow::pow(x, &eb));
    expect_int(ctx, "BigInt (&x).pow(&BigUint)", &args, r, want);
    let r = call(ctx, || Pow::pow(x.clone(), eb.clone()));
    expect_int(ctx, "BigInt x.pow(BigUint)", &args, r, want);
    let r = call(ctx, || Pow::pow(x, eb.clone()));
    expect_int(ctx, "BigInt (&x).pow(BigUint)", &args, r, want);
    let r = call(ctx, || Pow::pow(x.clone(), &eb));
    expect_int(ctx, "BigInt x.pow(&BigUint)", &args, r, want);
    if e <= u32::MAX as u64 {
        let r = call(ctx, || x.pow(e as u32));
        expect_int(ctx, "BigInt inherent pow(u32)", &args, r, want);
    }
    if let Some(u) = u {
        let r = call(ctx, || Pow::pow(u, &eb));
        expect_nat(ctx, "BigUint (&x).pow(&BigUint)", &args, r, &want.mag);
        let r = call(ctx, || Pow::pow(u.clone(), eb.clone()));
        expect_nat(ctx, "BigUint x.pow(BigUint)", &args, r, &want.mag);
        let r = call(ctx, || Pow::pow(u, eb.clone()));
        expect_nat(ctx, "BigUint (&x).pow(BigUint)", &args, r, &want.mag);
        let r = call(ctx, || Pow::pow(u.clone(), &eb));
        expect_nat(ctx, "BigUint x.pow(&BigUint)", &args, r, &want.mag);
        if e <= u32::MAX as u64 {
            let r = call(ctx, || u.pow(e as u32));
            expect_nat(ctx, "BigUint inherent pow(u32)", &args, r, &want.mag);
        }
    }
}

fn body(ctx: &mut Ctx) {
    let tier = ctx.tier;
    ctx.set_transcript_every(7);
    let bs = bases();
    if ctx.space("E1") {
        for (i, b) in bs.iter().enumerate() {
            if !ctx.mine(i as u64) {
                continue;
            }
            let x = bi_int(b);
            let u = if b.neg { None } else { Some(bu_nat(&b.mag)) };
            let emax = if b.mag.bits() <= 2 {
                tier.pick(4095u64, 16383)
            } else if b.mag.len() >= 3 {
                tier.pick(200u64, 300)
            } else {
                tier.pick(200u64, 600)
            };
            let mut p = Int::from_i64(1);
            for e in 0..=emax {
                if e > 0 {
                    p = p.mul(b);
                }
                ctx.inner(e);
                pow_case(ctx, b, &x, &u, e, &p);
            }
            ctx.sample(|| format!("base {} x every exponent 0..={} x 7 exponent types x 4 forms", b.to_hex(), emax));
        }
    }
    // E3: sparse and long bases (the squarings run through Karatsuba / Toom-3 on operands with zero digits inside)
    if ctx.space("E3") {
        let mut cases: Vec<(Int, u64)> = Vec::new();
        let one = Nat::one();
        for (k, emax) in [(320u64, 24u64), (1024, 12), (2048, 9), (4160, 5)] {
            let b = one.shl(k).add(&one);
            cases.push((Int::from_nat(b.clone()), emax));
            cases.push((Int::new(true, b.add(&one.shl(k / 2 + 1))), emax));
        }
        cases.push((Int::from_nat(one.shl(4160).add(&one.shl(1088)).add(&one.shl(1024)).add(&one)), 3));
        cases.push((Int::from_nat(Nat::from_digits(&alpha::lcg_digits(40, 3))), 9));
        cases.push((Int::new(true, Nat::from_digits(&vec![alpha::M; 70])), 7));
        for (i, (b, emax)) in cases.iter().enumerate() {
            if !ctx.mine(i as u64) {
                continue;
            }
            let x = bi_int(b);
            let u = if b.neg { None } else { Some(bu_nat(&b.mag)) };
            let mut p = Int::from_i64(1);
            for e in 0..=*emax {
                if e > 0 {
                    p = p.mul(b);
                }
                ctx.inner(e);
                pow_case(ctx, b, &x, &u, e, &p);
            }
            ctx.sample(|| format!("base of {} bits (sparse / dense long) x every exponent 0..={}", b.mag.bits(), emax));
        }
    }
    if ctx.space("E2") && ctx.mine(0) {
        // BigUint exponents at the conversion edges with bases 0, 1, -1
        let edges: Vec<Nat> = vec![
            Nat::from_digits(&[alpha::M]),
            Nat::from_digits(&[0, 1]),
            Nat::from_digits(&[1, 1]),
            Nat::from_digits(&[alpha::M, alpha::M]),
            Nat::from_digits(&[alpha::M - 1, alpha::M]),
            Nat::from_digits(&[0, 0, 1]),
            Nat::from_digits(&[1, 0, 1]),
            Nat::one().shl(200),
            Nat::one().shl(200).add(&Nat::one()),
            // truncation edges of narrower exponent types: multiples of 2^8, 2^16, 2^32, 2^64
            Nat::from_digits(&[1 << 8]),
            Nat::from_digits(&[1 << 16]),
            Nat::from_digits(&[1 << 32]),
            Nat::from_digits(&[(1 << 32) + 1]),
            Nat::from_digits(&[1 << 63]),
            Nat::from_digits(&[0, 2]),
            Nat::from_digits(&[0, alpha::M]),
            Nat::from_digits(&[1 << 32, 1 << 32]),
        ];
        for e in &edges {
            let eb = bu_nat(e);
            for b in [Int::zero(), Int::from_i64(1), Int::from_i64(-1)] {
                ctx.case();
                ctx.nontrivial(1);
                let want = if b.is_zero() {
                    Int::zero()
                } else if b.neg && !e.is_even() {
                    Int::from_i64(-1)
                } else {
                    Int::from_i64(1)
                };
                let x = bi_int(&b);
                let args = || vec![format!("x={}", b.to_hex()), format!("e={}", e.to_hex())];
                let r = call(ctx, || Pow::pow(&x, &eb));
                expect_int(ctx, "BigInt (&x).pow(&BigUint edge)", &args, r, &want);
                let r = call(ctx, || Pow::pow(x.clone(), eb.clone()));
                expect_int(ctx, "BigInt x.pow(BigUint edge)", &args, r, &want);
                if !b.neg {
                    let u = bu_nat(&b.mag);
                    let r = call(ctx, || Pow::pow(&u, &eb));
                    expect_nat(ctx, "BigUint (&x).pow(&BigUint edge)", &args, r, &want.mag);
                    let r = call(ctx, || Pow::pow(u.clone(), eb.clone()));
                    expect_nat(ctx, "BigUint x.pow(BigUint edge)", &args, r, &want.mag);
                }
                if let Some(t) = e.to_u128() {
                    let r = call(ctx, || Pow::pow(&x, t));
                    expect_int(ctx, "BigInt (&x).pow(u128 edge)", &args, r, &want);
                    let r = call(ctx, || Pow::pow(x.clone(), &t));
                    expect_int(ctx, "BigInt x.pow(&u128 edge)", &args, r, &want);
                    if !b.neg {
                        // the BigUint forms have their own primitive-exponent loop (BigInt's result is re-normalised
                        // by from_biguint, which would mask a wrong magnitude for base 0)
                        let u = bu_nat(&b.mag);
                        let r = call(ctx, || Pow::pow(&u, t));
                        expect_nat(ctx, "BigUint (&x).pow(u128 edge)", &args, r, &want.mag);
                        let r = call(ctx, || Pow::pow(u.clone(), t));
                        expect_nat(ctx, "BigUint x.pow(u128 edge)", &args, r, &want.mag);
                        let r = call(ctx, || Pow::pow(&u, &t));
                        expect_nat(ctx, "BigUint (&x).pow(&u128 edge)", &args, r, &want.mag);
                        let r = call(ctx, || Pow::pow(u.clone(), &t));
                        expect_nat(ctx, "BigUint x.pow(&u128 edge)", &args, r, &want.mag);
                        if let Some(t64) = e.to_u64() {
                            let r = call(ctx, || Pow::pow(&u, t64));
                            expect_nat(ctx, "BigUint (&x).pow(u64 edge)", &args, r, &want.mag);
                            let r = call(ctx, || Pow::pow(u.clone(), &t64));
                            expect_nat(ctx, "BigUint x.pow(&u64 edge)", &args, r, &want.mag);
                        }
                    }
                    if let Some(t64) = e.to_u64() {
                        let r = call(ctx, || Pow::pow(&x, t64));
                        expect_int(ctx, "BigInt (&x).pow(u64 edge)", &args, r, &want);
                        let r = call(ctx, || Pow::pow(&x, t64 as usize));
                        expect_int(ctx, "BigInt (&x).pow(usize edge)", &args, r, &want);
                        if let Ok(t32) = u32::try_from(t64) {
                            let r = call(ctx, || Pow::pow(&x, t32));
                            expect_int(ctx, "BigInt (&x).pow(u32 edge)", &args, r, &want);
                            let r = call(ctx, || (&x).pow(t32));
                            expect_int(ctx, "BigInt x.pow(u32 edge) inherent", &args, r, &want);
                            if !b.neg {
                                let u = bu_nat(&b.mag);
                                let r = call(ctx, || Pow::pow(&u, t32));
                                expect_nat(ctx, "BigUint (&x).pow(u32 edge)", &args, r, &want.mag);
                                let r = call(ctx, || (&u).pow(t32));
                                expect_nat(ctx, "BigUint x.pow(u32 edge) inherent", &args, r, &want.mag);
                            }
                        }
                        if let Ok(t16) = u16::try_from(t64) {
                            let r = call(ctx, || Pow::pow(&x, t16));
                            expect_int(ctx, "BigInt (&x).pow(u16 edge)", &args, r, &want);
                            if !b.neg {
                                let u = bu_nat(&b.mag);
                                let r = call(ctx, || Pow::pow(&u, t16));
                                expect_nat(ctx, "BigUint (&x).pow(u16 edge)", &args, r, &want.mag);
                            }
                        }
                    }
                }
            }
        }
        // 0^0 = 1 for every type
        ctx.sample(|| "BigUint exponents 2^64-1, 2^64, 2^64+1, 2^128-1, 2^128, 2^200(+1) with bases 0, 1, -1".to_string());
    }
}

fn main() {
    runner::main(SPEC, body)
}
