//! C02 -- multiplication is exact in every algorithm regime and at every size boundary.
use nbmc::*;
use num_traits::CheckedMul;

const SPEC: Spec = Spec {
    id: "C02",
    engine: "E-prod (exhaustive product enumeration of operand shapes x digit patterns, real code vs refint)",
    rule: "every (length pair, pattern pair) of the stated lattice is multiplied through &a*&b, a*=&b, a*b, checked_mul (and squares) and compared digit-for-digit with the schoolbook product of refint; a case is non-trivial when both operands have at least 2 digits (general mac3 path)",
    assumptions: &[
        "operands above 3 digits are pattern-structured (12 deterministic patterns defined relative to the split points of the code), not dense",
        "refint schoolbook multiplication is trusted; cross-checked against Python int on a transcript slice",
        "x86_64 / 64-bit digits only",
    ],
    bounds_quick: "M1 Dense(S5,3)^2 + Dense(S8+,2)^2 + Dense(S16,2)^2 (16-letter half-digit alphabet); M2 all 1<=lx<=ly<=100 x 12x12 patterns + squares; M3 lx in {255..259,385,770} x 8 length relations x 12x12 patterns; M4 low/inner zero digits; M5 BigInt sign pairs and scalar forms on the pool, plus the *= / by-value forms on operands with spare buffer capacity for the whole product (also on every M6 length pair); M6 dense LCG digits for every 1<=lx<=ly<=72 x 2x2 members; M8 scalar matrix: 13 magnitudes x both signs x 30 edge scalars x 12 primitive types x 5 forms; M7 pool x every 2^k-1, 2^k, 2^k+1 (k<128) as scalar of every width and as big operand",
    bounds_thorough: "M1; M2 all 1<=lx<=ly<=400 x 12x12 patterns + squares; M3 lx in {255..262,300,383..386,511..514,767..772,1023..1026,1537..1539,2048,2305,2309..2311} x 8 length relations x 12x12 patterns; M4; M5; M6 up to 160 digits x 6x6 family members; M7",
    hang_secs: 120,
    probes: Some(probes),
    max_workers: 16,
};

fn args2(a: &Nat, b: &Nat) -> Vec<String> {
    vec![format!("a={}", a.to_hex()), format!("b={}", b.to_hex())]
}

fn mul_pair(ctx: &mut Ctx, ad: &[u64], bd: &[u64], a: &BigUint, b: &BigUint, signs: bool) {
    ctx.case();
    let an = Nat::from_digits(ad);
    let bn = Nat::from_digits(bd);
    let want = an.mul(&bn);
    if an.len() >= 2 && bn.len() >= 2 {
        ctx.nontrivial(1);
    }
    ctx.tr(|| format!("mul {} {} {}", an.to_hex(), bn.to_hex(), want.to_hex()));
    ctx.outcome_digits(want.digits());
    let args = || args2(&an, &bn);
    let r = call(ctx, || a * b);
    expect_nat(ctx, "BigUint &a*&b", &args, r, &want);
    let r = call(ctx, || b * a);
    expect_nat(ctx, "BigUint &b*&a", &args, r, &want);
    let r = call(ctx, || {
        let mut x = a.clone();
        x *= b;
        x
    });
    expect_nat(ctx, "BigUint a*=&b", &args, r, &want);
    let r = call(ctx, || a.clone() * b.clone());
    expect_nat(ctx, "BigUint a*b", &args, r, &want);
    let r = call(ctx, || a.checked_mul(b));
    match r {
        Out::Ret(Some(x)) => expect_nat(ctx, "BigUint checked_mul", &args, Out::Ret(x), &want),
        other => ctx.viol(format!("BigUint checked_mul {}", args().join(" ")), "checked_mul did not return Some", args(), want.to_hex(), format!("{:?}", other.map_dbg())),
    }
    if signs {
        let ap = BigInt::from(a.clone());
        let bp = BigInt::from(b.clone());
        let an_ = -ap.clone();
        let bn_ = -bp.clone();
        for (sa, sb) in [(false, false), (false, true), (true, false), (true, true)] {
            let x = if sa { &an_ } else { &ap };
            let y = if sb { &bn_ } else { &bp };
            let w = Int::new(sa != sb, want.clone());
            let iargs = || vec![format!("x={}{}", if sa { "-" } else { "" }, an.to_hex()), format!("y={}{}", if sb { "-" } else { "" }, bn.to_hex())];
            let r = call(ctx, || x * y);
            expect_int(ctx, "BigInt &x*&y", &iargs, r, &w);
            let r = call(ctx, || {
                let mut t = x.clone();
                t *= y;
                t
            });
            expect_int(ctx, "BigInt x*=&y", &iargs, r, &w);
            let r = call(ctx, || x.clone() * y.clone());
            expect_int(ctx, "BigInt x*y", &iargs, r, &w);
            let r = call(ctx, || x.checked_mul(y));
            match r {
                Out::Ret(Some(v)) => expect_int(ctx, "BigInt checked_mul", &iargs, Out::Ret(v), &w),
                other => ctx.viol(format!("BigInt checked_mul {}", iargs().join(" ")), "checked_mul did not return Some", iargs(), w.to_hex(), format!("{:?}", other.map_dbg())),
            }
            let r = call(ctx, || num_traits::CheckedMul::checked_mul(x, y));
            match r {
                Out::Ret(Some(v)) => expect_int(ctx, "CheckedMul for BigInt", &iargs, Out::Ret(v), &w),
                other => ctx.viol(format!("CheckedMul for BigInt {}", iargs().join(" ")), "checked_mul did not return Some", iargs(), w.to_hex(), format!("{:?}", other.map_dbg())),
            }
        }
    }
}

/// the in-place and by-value forms on operands whose buffer has spare capacity for the whole product
fn mul_slack(ctx: &mut Ctx, ad: &[u64], bd: &[u64], a: &BigUint, b: &BigUint) {
    ctx.case();
    let an = Nat::from_digits(ad);
    let bn = Nat::from_digits(bd);
    let want = an.mul(&bn);
    let need = an.len() + bn.len() + 2;
    let (sa, capa) = with_slack(a, need);
    let (sb, _) = with_slack(b, need);
    if capa >= need {
        ctx.goal("left operand with capacity for the whole product");
        if an.len() >= 2 && bn.len() >= 2 {
            ctx.nontrivial(1);
        }
    }
    let args = || args2(&an, &bn);
    let r = call(ctx, || {
        let mut x = sa.clone();
        // clone() may drop the slack: rebuild it on the clone when it did
        if num_bigint::verif_probe::raw_biguint(&x).1 < need {
            x = with_slack(&x, need).0;
        }
        x *= b;
        x
    });
    expect_nat(ctx, "BigUint slack a*=&b", &args, r, &want);
    let r = call(ctx, || {
        let mut x = with_slack(a, need).0;
        x *= b.clone();
        x
    });
    expect_nat(ctx, "BigUint slack a*=b", &args, r, &want);
    let r = call(ctx, || with_slack(a, need).0 * b);
    expect_nat(ctx, "BigUint slack a*&b", &args, r, &want);
    let r = call(ctx, || a * with_slack(b, need).0);
    expect_nat(ctx, "BigUint &a*slack b", &args, r, &want);
    let r = call(ctx, || with_slack(a, need).0 * with_slack(b, need).0);
    expect_nat(ctx, "BigUint slack a*slack b", &args, r, &want);
    let r = call(ctx, || {
        let mut t = -BigInt::from(with_slack(a, need).0);
        t *= BigInt::from(sb.clone());
        t
    });
    expect_int(ctx, "BigInt slack -a*=b", &args, r, &Int::new(!want.is_zero(), want.clone()));
    let r = call(ctx, || {
        let mut t = BigInt::from(with_slack(a, need).0);
        t *= &-BigInt::from(b.clone());
        t
    });
    expect_int(ctx, "BigInt slack a*=&-b", &args, r, &Int::new(!want.is_zero(), want.clone()));
}

trait MapDbg {
    fn map_dbg(self) -> String;
}
impl<T: std::fmt::Debug> MapDbg for Out<T> {
    fn map_dbg(self) -> String {
        match self {
            Out::Ret(v) => format!("{:?}", v),
            Out::Panic(m) => format!("panic: {}", m),
        }
    }
}

fn square(ctx: &mut Ctx, ad: &[u64], a: &BigUint) {
    ctx.case();
    let an = Nat::from_digits(ad);
    let want = an.mul(&an);
    if an.len() >= 2 {
        ctx.nontrivial(1);
    }
    let args = || vec![format!("a={}", an.to_hex())];
    let r = call(ctx, || a * a);
    expect_nat(ctx, "BigUint &a*&a", &args, r, &want);
    let r = call(ctx, || {
        let mut x = a.clone();
        let y = a.clone();
        x *= y;
        x
    });
    expect_nat(ctx, "BigUint a*=a", &args, r, &want);
}

fn lattice(ctx: &mut Ctx, name: &str, shapes: &[(usize, usize)], pats: &[usize]) {
    if !ctx.space(name) {
        return;
    }
    for (i, &(lx, ly)) in shapes.iter().enumerate() {
        if !ctx.mine(i as u64) {
            continue;
        }
        let xs: Vec<(Vec<u64>, BigUint)> = pats
            .iter()
            .map(|&p| {
                let d = alpha::pat(lx, p);
                let u = bu(&d);
                (d, u)
            })
            .collect();
        let ys: Vec<(Vec<u64>, BigUint)> = pats
            .iter()
            .map(|&p| {
                let d = alpha::pat(ly, p);
                let u = bu(&d);
                (d, u)
            })
            .collect();
        let mut j = 0;
        for (xd, xu) in &xs {
            for (yd, yu) in &ys {
                ctx.inner(j);
                j += 1;
                // the BigInt wrappers (four sign pairs x four forms) on one pattern pair of every shape
                mul_pair(ctx, xd, yd, xu, yu, j % 29 == 1);
            }
        }
        if lx == ly {
            for (xd, xu) in &xs {
                square(ctx, xd, xu);
            }
        }
        ctx.sample(|| format!("lx={} ly={} x {}x{} patterns {:?}", lx, ly, pats.len(), pats.len(), pats.iter().map(|&p| alpha::PAT_NAMES[p]).collect::<Vec<_>>()));
    }
}

fn body(ctx: &mut Ctx) {
    let tier = ctx.tier;
    ctx.set_transcript_every(tier.pick(7, 101));
    // M1: dense small operands
    for (name, set) in [("M1a", alpha::dense(&alpha::SIGMA5, 3)), ("M1b", alpha::dense(&[0, 1, 2, 1 << 32, alpha::H - 1, alpha::H, alpha::H + 1, alpha::M - 1, alpha::M], 2)), ("M1c", alpha::dense(&alpha::SIGMA16, 2))] {
        if ctx.space(name) {
            let us: Vec<BigUint> = set.iter().map(|d| bu(d)).collect();
            for i in 0..set.len() {
                if !ctx.mine(i as u64) {
                    continue;
                }
                for j in 0..set.len() {
                    ctx.inner(j as u64);
                    mul_pair(ctx, &set[i], &set[j], &us[i], &us[j], true);
                }
                ctx.sample(|| format!("a={} x all b of the dense set ({} values), 4 sign pairs", hexs(&set[i]), set.len()));
            }
        }
    }
    // M2: length lattice x patterns
    let all: Vec<usize> = (0..alpha::NPAT).collect();
    let six = vec![0usize, 2, 3, 4, 6, 10];
    let _ = six;
    let pats = all.clone();
    let lmax = tier.pick(100, 400);
    let mut shapes = Vec::new();
    for ly in 1..=lmax {
        for lx in 1..=ly {
            shapes.push((lx, ly));
        }
    }
    lattice(ctx, "M2", &shapes, &pats);
    // M3: Toom-3 band
    let lxs: Vec<usize> = tier.pick(vec![255, 256, 257, 258, 259, 385, 770], vec![255, 256, 257, 258, 259, 260, 261, 262, 300, 383, 384, 385, 386, 511, 512, 513, 514, 767, 768, 769, 770, 771, 772, 1023, 1024, 1025, 1026, 1537, 1538, 1539, 2048, 2305, 2309, 2310, 2311]);
    let mut shapes = Vec::new();
    for &lx in &lxs {
        for ly in [lx, lx + 1, lx + 2, (3 * lx + 1) / 2, 2 * lx - 1, 2 * lx, 2 * lx + 1, 3 * lx] {
            shapes.push((lx, ly));
        }
    }
    lattice(ctx, "M3", &shapes, &pats);
    // M6: dense LCG digits, every length pair x 2x2 family members (+ squares)
    if ctx.space("M6") {
        let lmax = tier.pick(72usize, 160usize);
        let mut o = 0u64;
        for ly in 1..=lmax {
            for lx in 1..=ly {
                let take = ctx.mine(o);
                o += 1;
                if !take {
                    continue;
                }
                let ns = tier.pick(2u64, 6u64);
                for sx in 0..ns {
                    for sy in ns..2 * ns {
                        let (xd, yd) = (alpha::lcg_digits(lx, sx), alpha::lcg_digits(ly, sy));
                        let (xu, yu) = (bu(&xd), bu(&yd));
                        mul_pair(ctx, &xd, &yd, &xu, &yu, sx == 0 && sy == ns);
                        if sx == 0 && sy == ns {
                            mul_slack(ctx, &xd, &yd, &xu, &yu);
                            mul_slack(ctx, &yd, &xd, &yu, &xu);
                        }
                    }
                }
                if lx == ly {
                    let xd = alpha::lcg_digits(lx, 9);
                    square(ctx, &xd, &bu(&xd));
                }
            }
        }
        if ctx.mine(1 << 40) {
            for (lx, ly) in [(257usize, 257usize), (257, 400), (300, 600), (400, 401), (770, 771), (1030, 1500)] {
                let (xd, yd) = (alpha::lcg_digits(lx, 1), alpha::lcg_digits(ly, 2));
                let (xu, yu) = (bu(&xd), bu(&yd));
                mul_pair(ctx, &xd, &yd, &xu, &yu, true);
            }
            ctx.sample(|| "dense LCG operands in the Toom-3 regime: 257x257 ... 1030x1500 digits".to_string());
        }
    }
    // M7: single-digit and power-of-two fast paths: every 2^k, 2^k-1, 2^k+1 (k < 128) as scalar and as a big operand
    if ctx.space("M7") {
        let pool = alpha::pool_mags();
        for (i, ad) in pool.iter().enumerate() {
            if !ctx.mine(i as u64) {
                continue;
            }
            let (an, au) = (Nat::from_digits(ad), bu(ad));
            let ai = BigInt::from(au.clone());
            for k in 0..128u32 {
                ctx.inner(k as u64);
                for delta in [-1i32, 0, 1] {
                    let s: u128 = match delta {
                        -1 => (1u128 << k) - 1,
                        0 => 1u128 << k,
                        _ => (1u128 << k).wrapping_add(1),
                    };
                    ctx.case();
                    if ad.len() >= 2 {
                        ctx.nontrivial(1);
                    }
                    let sn = Nat::from_u128(s);
                    let want = an.mul(&sn);
                    let args = || vec![format!("a={}", an.to_hex()), format!("s={:x}", s)];
                    let su = bu_nat(&sn);
                    let r = call(ctx, || &au * &su);
                    expect_nat(ctx, "BigUint &a*&big(s)", &args, r, &want);
                    let r = call(ctx, || &su * &au);
                    expect_nat(ctx, "BigUint &big(s)*&a", &args, r, &want);
                    let r = call(ctx, || &au * s);
                    expect_nat(ctx, "BigUint &a*u128", &args, r, &want);
                    let r = call(ctx, || {
                        let mut x = au.clone();
                        x *= s;
                        x
                    });
                    expect_nat(ctx, "BigUint a*=u128", &args, r, &want);
                    let r = call(ctx, || -(&ai) * s);
                    expect_int(ctx, "BigInt -a*u128", &args, r, &Int::new(true, want.clone()));
                    if let Ok(s64) = u64::try_from(s) {
                        let r = call(ctx, || &au * s64);
                        expect_nat(ctx, "BigUint &a*u64", &args, r, &want);
                        let r = call(ctx, || s64 * au.clone());
                        expect_nat(ctx, "BigUint u64*a", &args, r, &want);
                        let r = call(ctx, || {
                            let mut x = au.clone();
                            x *= s64;
                            x
                        });
                        expect_nat(ctx, "BigUint a*=u64", &args, r, &want);
                        if let Ok(s32) = u32::try_from(s) {
                            let r = call(ctx, || &au * s32);
                            expect_nat(ctx, "BigUint &a*u32", &args, r, &want);
                            let r = call(ctx, || {
                                let mut x = au.clone();
                                x *= s32;
                                x
                            });
                            expect_nat(ctx, "BigUint a*=u32", &args, r, &want);
                        }
                    }
                    if let Ok(si) = i128::try_from(s) {
                        let r = call(ctx, || &ai * -si);
                        expect_int(ctx, "BigInt &a*-i128", &args, r, &Int::new(true, want.clone()));
                    }
                }
            }
            ctx.sample(|| format!("a={} x every 2^k-1, 2^k, 2^k+1 (k<128) as u32/u64/u128/i128 scalar and as big operand", an.to_hex()));
        }
    }
    // M8: the full scalar matrix: every primitive type x its extreme values x both operand orders x * and *= on BigInt of
    // both signs and, for the unsigned types, on BigUint
    if ctx.space("M8") {
        let mags: Vec<Vec<u64>> = vec![vec![], vec![1], vec![2], vec![0xffff_ffff], vec![alpha::H - 1], vec![alpha::H], vec![alpha::M], vec![0, 1], vec![alpha::M, alpha::H - 1], vec![alpha::M, alpha::M], vec![1, 0, 1], alpha::lcg_digits(5, 9), alpha::lcg_digits(40, 9)];
        let edge: Vec<i128> = vec![0, 1, 2, -1, -2, 127, 128, -128, 255, 256, 32767, -32768, 65535, 65536, (1 << 31) - 1, 1 << 31, -(1 << 31), (1 << 32) - 1, 1 << 32, (1 << 63) - 1, 1 << 63, -(1 << 63), -(1 << 63) - 1, (1 << 64) - 1, 1 << 64, (1 << 64) + 1, -(1 << 64), i128::MAX, i128::MIN, i128::MIN + 1];
        macro_rules! scalar_int {
            ($T:ty, $tn:expr, $x:expr, $xi:expr, $t:expr) => {{
                if let Ok(t) = <$T>::try_from($t) {
                    let want = $xi.mul(&Int::from_i128($t));
                    let args = || vec![format!("x={}", $xi.to_hex()), format!("s={} ({})", $t, $tn)];
                    let r = call(ctx, || $x * t);
                    expect_int(ctx, concat!("BigInt &x*", $tn), &args, r, &want);
                    let r = call(ctx, || t * $x);
                    expect_int(ctx, concat!("BigInt ", $tn, "*&x"), &args, r, &want);
                    let r = call(ctx, || $x.clone() * t);
                    expect_int(ctx, concat!("BigInt x*", $tn), &args, r, &want);
                    let r = call(ctx, || t * $x.clone());
                    expect_int(ctx, concat!("BigInt ", $tn, "*x"), &args, r, &want);
                    let r = call(ctx, || {
                        let mut y = $x.clone();
                        y *= t;
                        y
                    });
                    expect_int(ctx, concat!("BigInt x*=", $tn), &args, r, &want);
                }
            }};
        }
        macro_rules! scalar_uint {
            ($T:ty, $tn:expr, $u:expr, $un:expr, $t:expr) => {{
                if let Ok(t) = <$T>::try_from($t) {
                    let want = $un.mul(&Nat::from_u128($t as u128));
                    let args = || vec![format!("a={}", $un.to_hex()), format!("s={} ({})", $t, $tn)];
                    let r = call(ctx, || $u * t);
                    expect_nat(ctx, concat!("BigUint &a*", $tn), &args, r, &want);
                    let r = call(ctx, || t * $u);
                    expect_nat(ctx, concat!("BigUint ", $tn, "*&a"), &args, r, &want);
                    let r = call(ctx, || t * $u.clone());
                    expect_nat(ctx, concat!("BigUint ", $tn, "*a"), &args, r, &want);
                    let r = call(ctx, || {
                        let mut y = $u.clone();
                        y *= t;
                        y
                    });
                    expect_nat(ctx, concat!("BigUint a*=", $tn), &args, r, &want);
                }
            }};
        }
        for (i, d) in mags.iter().enumerate() {
            if !ctx.mine(i as u64) {
                continue;
            }
            let un = Nat::from_digits(d);
            let u = bu(d);
            for neg in [false, true] {
                let xi = Int::new(neg, un.clone());
                let x = bi_int(&xi);
                for &t in &edge {
                    ctx.case();
                    ctx.nontrivial(1);
                    scalar_int!(i8, "i8", &x, &xi, t);
                    scalar_int!(i16, "i16", &x, &xi, t);
                    scalar_int!(i32, "i32", &x, &xi, t);
                    scalar_int!(i64, "i64", &x, &xi, t);
                    scalar_int!(i128, "i128", &x, &xi, t);
                    scalar_int!(isize, "isize", &x, &xi, t);
                    scalar_int!(u8, "u8", &x, &xi, t);
                    scalar_int!(u16, "u16", &x, &xi, t);
                    scalar_int!(u32, "u32", &x, &xi, t);
                    scalar_int!(u64, "u64", &x, &xi, t);
                    scalar_int!(u128, "u128", &x, &xi, t);
                    scalar_int!(usize, "usize", &x, &xi, t);
                    if !neg && t >= 0 {
                        scalar_uint!(u8, "u8", &u, &un, t);
                        scalar_uint!(u16, "u16", &u, &un, t);
                        scalar_uint!(u32, "u32", &u, &un, t);
                        scalar_uint!(u64, "u64", &u, &un, t);
                        scalar_uint!(u128, "u128", &u, &un, t);
                        scalar_uint!(usize, "usize", &u, &un, t);
                    }
                }
            }
            ctx.sample(|| format!("|x|={} digits (both signs) x {} edge scalars x 12 primitive types x 5 multiplication forms", un.len(), edge.len()));
        }
    }
    // M4: low zero digits and internal zero digits
    if ctx.space("M4") {
        let lens = [1usize, 2, 5, 33, 40, 70, 130];
        let mut ops: Vec<Vec<u64>> = Vec::new();
        for &l in &lens {
            for z in 0..=3usize {
                for &p in &[0usize, 7, 9, 10] {
                    let mut d = vec![0u64; z];
                    d.extend(alpha::pat(l, p));
                    ops.push(d);
                }
            }
        }
        // all-zero low half with single top digit, zero-only middle
        ops.push({
            let mut d = vec![0u64; 40];
            d.push(1);
            d
        });
        ops.push({
            let mut d = vec![alpha::M; 20];
            d.extend(vec![0u64; 30]);
            d.extend(vec![alpha::M; 20]);
            d
        });
        let us: Vec<BigUint> = ops.iter().map(|d| bu(d)).collect();
        for i in 0..ops.len() {
            if !ctx.mine(i as u64) {
                continue;
            }
            for j in 0..ops.len() {
                ctx.inner(j as u64);
                mul_pair(ctx, &ops[i], &ops[j], &us[i], &us[j], false);
            }
            ctx.sample(|| format!("a has {} digits with low zeros, x {} operands", ops[i].len(), ops.len()));
        }
    }
    // M5: BigInt signs over the pool and scalar multiplication forms
    if ctx.space("M5") {
        let pool = alpha::pool_mags();
        let us: Vec<BigUint> = pool.iter().map(|d| bu(d)).collect();
        for i in 0..pool.len() {
            if !ctx.mine(i as u64) {
                continue;
            }
            for j in 0..pool.len() {
                ctx.inner(j as u64);
                mul_pair(ctx, &pool[i], &pool[j], &us[i], &us[j], true);
                mul_slack(ctx, &pool[i], &pool[j], &us[i], &us[j]);
            }
            // scalar forms
            let an = Nat::from_digits(&pool[i]);
            for &s in &alpha::scal_u64() {
                ctx.case();
                let want = an.mul(&Nat::from_u64(s));
                let args = || vec![format!("a={}", an.to_hex()), format!("s={:x}", s)];
                let r = call(ctx, || &us[i] * s);
                expect_nat(ctx, "BigUint &a*u64", &args, r, &want);
                let r = call(ctx, || s * &us[i]);
                expect_nat(ctx, "BigUint u64*&a", &args, r, &want);
                let r = call(ctx, || {
                    let mut x = us[i].clone();
                    x *= s;
                    x
                });
                expect_nat(ctx, "BigUint a*=u64", &args, r, &want);
                if s <= u32::MAX as u64 {
                    let r = call(ctx, || {
                        let mut x = us[i].clone();
                        x *= s as u32;
                        x
                    });
                    expect_nat(ctx, "BigUint a*=u32", &args, r, &want);
                }
                // signed scalars on BigInt: i32 / i64 / isize, both signs of both operands
                {
                    let bp = BigInt::from(us[i].clone());
                    for (sb, x) in [(false, bp.clone()), (true, -bp.clone())] {
                        for ts in [s as i128, -(s as i128)] {
                            if let Ok(t64) = i64::try_from(ts) {
                                let want = Int::new(sb, an.clone()).mul(&Int::from_i128(ts));
                                let args = || vec![format!("x={}{}", if sb { "-" } else { "" }, an.to_hex()), format!("s={}", ts)];
                                let r = call(ctx, || &x * t64);
                                expect_int(ctx, "BigInt &x*i64", &args, r, &want);
                                let r = call(ctx, || t64 * x.clone());
                                expect_int(ctx, "BigInt i64*x", &args, r, &want);
                                let r = call(ctx, || {
                                    let mut y = x.clone();
                                    y *= t64;
                                    y
                                });
                                expect_int(ctx, "BigInt x*=i64", &args, r, &want);
                                let r = call(ctx, || &x * (t64 as isize));
                                expect_int(ctx, "BigInt &x*isize", &args, r, &want);
                                if let Ok(t32) = i32::try_from(ts) {
                                    let r = call(ctx, || &x * t32);
                                    expect_int(ctx, "BigInt &x*i32", &args, r, &want);
                                    let r = call(ctx, || {
                                        let mut y = x.clone();
                                        y *= t32;
                                        y
                                    });
                                    expect_int(ctx, "BigInt x*=i32", &args, r, &want);
                                }
                            }
                        }
                    }
                }
                for hi in [1u64, alpha::H, alpha::M] {
                    let t = ((hi as u128) << 64) | s as u128;
                    let want = an.mul(&Nat::from_u128(t));
                    let args = || vec![format!("a={}", an.to_hex()), format!("s={:x}", t)];
                    let r = call(ctx, || &us[i] * t);
                    expect_nat(ctx, "BigUint &a*u128", &args, r, &want);
                    let r = call(ctx, || {
                        let mut x = us[i].clone();
                        x *= t;
                        x
                    });
                    expect_nat(ctx, "BigUint a*=u128", &args, r, &want);
                    // BigInt with negative i128 scalar
                    let ti = -((t >> 1) as i128);
                    let wanti = Int::new(true, an.mul(&Nat::from_u128(t >> 1)));
                    let bi = BigInt::from(us[i].clone());
                    let args = || vec![format!("x={}", an.to_hex()), format!("s=-{:x}", t >> 1)];
                    let r = call(ctx, || &bi * ti);
                    expect_int(ctx, "BigInt &x*i128", &args, r, &wanti);
                    let r = call(ctx, || {
                        let mut x = bi.clone();
                        x *= ti;
                        x
                    });
                    expect_int(ctx, "BigInt x*=i128", &args, r, &wanti);
                }
            }
            ctx.sample(|| format!("pool[{}]={} x pool (signs) and x scalar alphabet", i, an.to_hex()));
        }
    }
}

fn main() {
    runner::main(SPEC, body)
}
