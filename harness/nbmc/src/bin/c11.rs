//! C11 -- integer roots are the exact floor roots (in the std and the no_std build).
use nbmc::*;
use num_integer::Roots;

const SPEC: Spec = Spec {
    id: "C11",
    engine: "E-prod x configurations (exhaustive enumeration of (x, degree) families on the real code, oracle r^n <= x < (r+1)^n evaluated in refint; the same binary is built and run with num-bigint's std feature on and off)",
    rule: "every (x, n) of the stated families through sqrt / cbrt / nth_root (inherent and Roots trait) of BigUint and BigInt; the result r must satisfy r^n <= x < (r+1)^n (refint, early exit on bit length), negated for negative x with odd n; even roots of negatives and n = 0 must panic; non-trivial = x >= 2^64 (Newton iteration path)",
    assumptions: &[
        "x from structured families: dense small, the u64 fast-path edge, perfect powers r^n and r^n+-1, 2^k and 2^k+-1 for every k in the stated range",
        "result equality across std / no_std follows from uniqueness of the floor root: both configurations are checked against the same oracle",
        "refint multiplication is trusted; the root oracle is cross-checked against a Python bisection root on a transcript slice",
    ],
    bounds_quick: "R8 r^n - d for every r in 2^e + [0,2048), e in {26,32,52,53,54,63,64}, n in {2,3,4,5}, d in 0..=3; R1 x < 2^14 and |x - 2^64| <= 256 x 15 degrees; R2 r^n, r^n+-1 for 11 bases x 12 degrees while r^n < 2^6000, each with every degree of the list + 1000 + u32::MAX; R3 2^k, 2^k+-1 for every k in 60..=2300 x degrees {2,3,4,5,7,11}; R4 negatives / panics; R6 b^n and b^n-1 for b in {3,2047,65537} x n in {1100,1500,3001} (Newton descents of the order of n steps); R7 Dense(S16,2) + 30 three-digit values x 12 degrees (half-digit alphabet)",
    bounds_thorough: "R8 windows of 65536 roots; R1 x < 2^17 and |x - 2^64| <= 4096; R2 while r^n < 2^12000; R3 every k in 60..=5000; R4; R6 6 bases x 8 degrees up to 6000",
    hang_secs: 120,
    probes: Some(probes),
    max_workers: 16,
};

const DEGS: [u32; 12] = [1, 2, 3, 4, 5, 7, 8, 16, 63, 64, 65, 100];

fn root_case(ctx: &mut Ctx, x: &Nat, n: u32) {
    ctx.case();
    if x.len() >= 2 {
        ctx.nontrivial(1);
    }
    let u = bu_nat(x);
    let args = || vec![format!("x={}", x.to_hex()), format!("n={}", n)];
    let chk = |ctx: &mut Ctx, form: &str, got: Out<BigUint>| {
        ctx.compared(1);
        match got {
            Out::Ret(r) => {
                let rn = nat_chk(ctx, form, &r);
                if !rn.is_root_of(x, n) {
                    ctx.viol(format!("{} x={} n={}", form, x.to_hex(), n), "result is not the floor root: r^n <= x < (r+1)^n fails", args(), "floor root".into(), rn.to_hex());
                } else {
                    ctx.outcome_digits(rn.digits());
                    if n <= 7 && x.len() <= 8 {
                        ctx.tr(|| format!("root {} {} {}", x.to_hex(), n, rn.to_hex()));
                    }
                }
            }
            Out::Panic(m) => ctx.viol(format!("{} x={} n={}", form, x.to_hex(), n), "unexpected panic", args(), "floor root".into(), m),
        }
    };
    let r = call(ctx, || u.nth_root(n));
    chk(ctx, "BigUint::nth_root", r);
    let r = call(ctx, || Roots::nth_root(&u, n));
    chk(ctx, "Roots::nth_root(BigUint)", r);
    if n == 2 {
        let r = call(ctx, || u.sqrt());
        chk(ctx, "BigUint::sqrt", r);
        let r = call(ctx, || Roots::sqrt(&u));
        chk(ctx, "Roots::sqrt(BigUint)", r);
    }
    if n == 3 {
        let r = call(ctx, || u.cbrt());
        chk(ctx, "BigUint::cbrt", r);
        let r = call(ctx, || Roots::cbrt(&u));
        chk(ctx, "Roots::cbrt(BigUint)", r);
    }
    // BigInt: positive and (odd n) negative
    let p = BigInt::from(u.clone());
    let ichk = |ctx: &mut Ctx, form: &str, got: Out<BigInt>, neg: bool| {
        ctx.compared(1);
        match got {
            Out::Ret(r) => {
                let ri = int_chk(ctx, form, &r);
                if (ri.neg != neg && !ri.is_zero()) || !ri.mag.is_root_of(x, n) {
                    ctx.viol(format!("{} x={}{} n={}", form, if neg { "-" } else { "" }, x.to_hex(), n), "result is not the floor root of |x| with the sign of x", args(), "signed floor root".into(), ri.to_hex());
                }
            }
            Out::Panic(m) => ctx.viol(format!("{} x={}{} n={}", form, if neg { "-" } else { "" }, x.to_hex(), n), "unexpected panic", args(), "floor root".into(), m),
        }
    };
    let r = call(ctx, || p.nth_root(n));
    ichk(ctx, "BigInt::nth_root", r, false);
    if n == 2 {
        let r = call(ctx, || p.sqrt());
        ichk(ctx, "BigInt::sqrt", r, false);
    }
    if n == 3 {
        let r = call(ctx, || p.cbrt());
        ichk(ctx, "BigInt::cbrt", r, false);
    }
    if !x.is_zero() {
        let m = -p.clone();
        if n % 2 == 1 {
            let r = call(ctx, || m.nth_root(n));
            ichk(ctx, "BigInt::nth_root", r, true);
            let r = call(ctx, || Roots::nth_root(&m, n));
            ichk(ctx, "Roots::nth_root(BigInt)", r, true);
            if n == 3 {
                let r = call(ctx, || m.cbrt());
                ichk(ctx, "BigInt::cbrt", r, true);
            }
        } else {
            let r = call(ctx, || m.nth_root(n));
            expect_panic(ctx, "BigInt::nth_root(even n) of a negative", &args, r);
            if n == 2 {
                let r = call(ctx, || m.sqrt());
                expect_panic(ctx, "BigInt::sqrt of a negative", &args, r);
                let r = call(ctx, || Roots::sqrt(&m));
                expect_panic(ctx, "Roots::sqrt(BigInt) of a negative", &args, r);
            }
        }
    }
}

fn body(ctx: &mut Ctx) {
    let tier = ctx.tier;
    ctx.set_transcript_every(tier.pick(29, 499));
    let r1degs: Vec<u32> = vec![1, 2, 3, 4, 5, 6, 7, 8, 9, 10, 16, 63, 64, 65, 100];
    if ctx.space("R1") {
        let n = tier.pick(1u64 << 14, 1u64 << 17);
        let w = tier.pick(256i64, 4096i64);
        let mut xs: Vec<Nat> = (0..n).map(Nat::from_u64).collect();
        let e = Int::from_nat(Nat::one().shl(64));
        for d in -w..=w {
            xs.push(e.add(&Int::from_i64(d)).mag);
        }
        for (i, x) in xs.iter().enumerate() {
            if !ctx.mine(i as u64) {
                continue;
            }
            for &d in &r1degs {
                root_case(ctx, x, d);
            }
            if i == 4000 {
                ctx.sample(|| format!("x={} x degrees {:?}", x.to_hex(), r1degs));
            }
        }
    }
    if ctx.space("R2") {
        let lim = tier.pick(6000u64, 12000u64);
        let bases: Vec<Nat> = vec![
            Nat::from_u64(2),
            Nat::from_u64(3),
            Nat::from_u64(10),
            Nat::from_u64(0xffff_ffff),
            Nat::from_u64(0x1_0000_0000),
            Nat::from_u64(0x1_0000_0001),
            Nat::from_u64(alpha::M),
            Nat::from_digits(&[1, 1]),
            Nat::from_u64(10_000_000_000_000_061),
            Nat::from_digits(&alpha::pat(2, 10)),
            Nat::from_digits(&alpha::pat(3, 10)),
        ];
        let mut qdegs: Vec<u32> = DEGS.to_vec();
        qdegs.extend([1000, u32::MAX]);
        let mut o = 0u64;
        for b in &bases {
            for &n in &DEGS {
                let take = ctx.mine(o);
                o += 1;
                if !take {
                    continue;
                }
                if b.bits() * n as u64 > lim + 64 {
                    continue;
                }
                let p = b.pow(n as u64);
                if p.bits() > lim {
                    continue;
                }
                for x in [p.sub(&Nat::one()).unwrap(), p.clone(), p.add(&Nat::one())] {
                    for &d in &qdegs {
                        root_case(ctx, &x, d);
                    }
                }
                ctx.sample(|| format!("x = {}^{} and +-1 ({} bits) x degrees {:?}", b.to_hex(), n, p.bits(), qdegs));
            }
        }
    }
    // R8: perfect powers minus 0..3 for EVERY root in a window at each floating-point precision edge.  Whether the
    // Newton descent passes through root+2, root+1 or starts below the root depends on how the f64 (std) or 2^k
    // (no_std) starting guess rounds for that particular root, so the window is enumerated completely rather than
    // sampled at a few bases.
    if ctx.space("R8") {
        let w = tier.pick(2048u64, 65536u64);
        let block = 256u64;
        let mut o = 0u64;
        for e in [26u64, 32, 52, 53, 54, 63, 64] {
            for j0 in (0..w).step_by(block as usize) {
                let take = ctx.mine(o);
                o += 1;
                if !take {
                    continue;
                }
                for j in j0..j0 + block {
                    let r1 = Nat::one().shl(e).add(&Nat::from_u64(j));
                    for n in [2u32, 3, 4, 5] {
                        let p = r1.pow(n as u64);
                        for d in 0..=3u64 {
                            root_case(ctx, &p.sub(&Nat::from_u64(d)).unwrap(), n);
                        }
                    }
                }
            }
            ctx.sample(|| format!("x = r^n - d for every r in 2^{} + [0, {}) x n in {{2,3,4,5}} x d in 0..=3", e, w));
        }
    }
    if ctx.space("R3") {
        let degs = [2u32, 3, 4, 5, 7, 11];
        for k in 60u64..=tier.pick(2300, 5000) {
            if !ctx.mine(k) {
                continue;
            }
            let p = Nat::one().shl(k);
            for x in [p.sub(&Nat::one()).unwrap(), p.clone(), p.add(&Nat::one())] {
                for &d in &degs {
                    root_case(ctx, &x, d);
                }
            }
            if k == 1029 {
                ctx.sample(|| format!("x = 2^{} and +-1 x degrees {:?} (just above the finite-f64 range: scaled recursive guess in the std build)", k, degs));
            }
        }
    }
    if ctx.space("R5") {
        let lmax = tier.pick(24usize, 48usize);
        for l in 2..=lmax {
            if !ctx.mine(l as u64) {
                continue;
            }
            for salt in 0..4u64 {
                let x = Nat::from_digits(&alpha::lcg_digits(l, salt));
                for d in [2u32, 3, 4, 5, 7, 16, 64, 100] {
                    root_case(ctx, &x, d);
                }
            }
            if l == 17 {
                ctx.sample(|| "dense LCG values of 17 digits x degrees {2,3,4,5,7,16,64,100}".to_string());
            }
        }
    }
    // R7: half-digit value structure: Dense(S16,2) and three-digit extensions x degrees
    if ctx.space("R7") {
        let mut xs: Vec<Vec<u64>> = alpha::dense(&alpha::SIGMA16, 2);
        for &t in &alpha::SIGMA16 {
            if t != 0 {
                xs.push(vec![alpha::M, 0, t]);
                xs.push(vec![0, alpha::M, t]);
            }
        }
        for (i, d) in xs.iter().enumerate() {
            if !ctx.mine(i as u64) {
                continue;
            }
            let x = Nat::from_digits(d);
            for n in [2u32, 3, 4, 5, 7, 8, 31, 32, 33, 63, 64, 65] {
                root_case(ctx, &x, n);
            }
        }
        ctx.sample(|| "Dense(S16,2) (16-letter half-digit alphabet) and 30 three-digit values x degrees {2,3,4,5,7,8,31,32,33,63,64,65}".to_string());
    }
    // R6: large degrees with multi-bit roots: the Newton iteration needs on the order of n steps there
    if ctx.space("R6") {
        let degs: Vec<u32> = match tier {
            Tier::Quick => vec![1100, 1500, 3001],
            Tier::Thorough => vec![1000, 1025, 1100, 1500, 2000, 3001, 4097, 6000],
        };
        let bases: Vec<u64> = match tier {
            Tier::Quick => vec![3, 2047, 65537],
            Tier::Thorough => vec![3, 255, 2047, 2048, 65537, 1 << 20],
        };
        let mut o = 0u64;
        for &n in &degs {
            for &b in &bases {
                let take = ctx.mine(o);
                o += 1;
                if !take {
                    continue;
                }
                let p = Nat::from_u64(b).pow(n as u64);
                for x in [p.sub(&Nat::one()).unwrap(), p.clone()] {
                    root_case(ctx, &x, n);
                }
                if n == 1500 {
                    ctx.sample(|| format!("x = {}^{} and -1 ({} bits) x degree {}", b, n, p.bits(), n));
                }
            }
        }
    }
    if ctx.space("R4") && ctx.mine(0) {
        // n = 0 must panic for every x
        for d in alpha::pool_mags().iter().take(20) {
            ctx.case();
            ctx.nontrivial(1);
            let x = Nat::from_digits(d);
            let u = bu_nat(&x);
            let args = || vec![format!("x={}", x.to_hex()), "n=0".to_string()];
            let r = call(ctx, || u.nth_root(0));
            expect_panic(ctx, "BigUint::nth_root(0)", &args, r);
            let r = call(ctx, || BigInt::from(u.clone()).nth_root(0));
            expect_panic(ctx, "BigInt::nth_root(0)", &args, r);
            let r = call(ctx, || (-BigInt::from(u.clone())).nth_root(0));
            expect_panic(ctx, "BigInt::nth_root(0) negative", &args, r);
        }
        ctx.sample(|| "n = 0 must panic for every x of a 20-value pool".to_string());
    }
}

fn main() {
    runner::main(SPEC, body)
}
