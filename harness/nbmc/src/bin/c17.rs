//! C17 -- serialized form is the portable u32-digit format and round-trips exactly.
use nbmc::*;
use serde::de::{self, DeserializeSeed, SeqAccess, Visitor};
use serde::ser::{self, Impossible, SerializeSeq, SerializeTuple};
use serde::{Deserialize, Serialize};
use std::fmt;

const SPEC: Spec = Spec {
    id: "C17",
    engine: "E-prod (exhaustive enumeration of values through a recording Serializer, and of token sequences x size hints x sign tokens through a token-replay Deserializer; serde_json as a second, real format)",
    rule: "serialize: every value of +-Dense(S32,3) must emit exactly seq(len = number of base-2^32 digits){u32...} without trailing zero digit (zero = empty sequence), BigInt as tuple(2){i8 sign in -1/0/1, that sequence}; deserialize: every u32 sequence over {0,1,2^32-1} up to the length bound x 10 size-hint behaviours (absent, exact, 0, +5, usize::MAX, 1, 2, 3, n-1, n/2) x 2 format kinds (human-readable / compact, as reported by is_human_readable) (x all 256 i8 sign tokens for BigInt) must yield the canonical value it denotes, invalid signs and ill-typed elements must be rejected with an error (no panic); deserialize(serialize(x)) == x through the recorder and through serde_json; non-trivial = value >= 2^32 (serialize) / sequence with trailing zeros, odd length or inconsistent sign (deserialize)",
    assumptions: &[
        "token sequences are bounded in length; the 3-letter word alphabet {0,1,2^32-1} generates trailing zeros, odd/even lengths and full high halves",
        "two formats: the harness's own recorder/replayer (exact token-level control incl. absent or wrong size hints) and serde_json",
    ],
    bounds_quick: "S +-Dense(S32,3); D1 u32 sequences of length <= 7 x 10 size hints; D2 length <= 5 x all 256 i8 sign tokens x 10 hints; D3 ill-typed elements; D4 sequences of 63..65, 1000, 262143..262145 and 300001 elements (around the 1 MiB pre-allocation cap) x 3 patterns x 10 hints; J serde_json round trips and JSON texts with trailing zeros",
    bounds_thorough: "S +-Dense(S32,3) + patterns up to 40 digits; D1 length <= 9; D2 length <= 7; D3; J",
    hang_secs: 60,
    probes: None,
    max_workers: 16,
};

#[derive(Debug)]
struct Err_(String);
impl fmt::Display for Err_ {
    fn fmt(&self, f: &mut fmt::Formatter<'_>) -> fmt::Result {
        write!(f, "{}", self.0)
    }
}
impl std::error::Error for Err_ {}
impl ser::Error for Err_ {
    fn custom<T: fmt::Display>(m: T) -> Self {
        Err_(m.to_string())
    }
}
impl de::Error for Err_ {
    fn custom<T: fmt::Display>(m: T) -> Self {
        Err_(m.to_string())
    }
}

#[derive(Clone, Debug, PartialEq)]
enum Tok {
    Seq(Option<usize>),
    SeqEnd,
    Tuple(usize),
    TupleEnd,
    U32(u32),
    U64(u64),
    I64(i64),
    I8(i8),
    Str(String),
    Other(&'static str),
}

/// Format kind presented to the library: true = human-readable (JSON-like, serde's default), false = compact binary
/// (bincode-like).  Both the recorder and the replayer report it through `is_human_readable`.
static HUMAN_READABLE: std::sync::atomic::AtomicBool = std::sync::atomic::AtomicBool::new(true);
fn hr() -> bool {
    HUMAN_READABLE.load(std::sync::atomic::Ordering::Relaxed)
}
fn kind() -> &'static str {
    if hr() {
        ""
    } else {
        " format=compact(non-human-readable)"
    }
}
// ------------------------------------------------------------------ recording serializer
struct Rec<'a> {
    out: &'a mut Vec<Tok>,
}
macro_rules! other {
    ($name:ident, $t:ty) => {
        fn $name(self, _v: $t) -> Result<(), Err_> {
            self.out.push(Tok::Other(stringify!($name)));
            Ok(())
        }
    };
}
impl<'a> ser::Serializer for Rec<'a> {
    fn is_human_readable(&self) -> bool {
        hr()
    }
    type Ok = ();
    type Error = Err_;
    type SerializeSeq = RecSeq<'a>;
    type SerializeTuple = RecSeq<'a>;
    type SerializeTupleStruct = Impossible<(), Err_>;
    type SerializeTupleVariant = Impossible<(), Err_>;
    type SerializeMap = Impossible<(), Err_>;
    type SerializeStruct = Impossible<(), Err_>;
    type SerializeStructVariant = Impossible<(), Err_>;
    fn serialize_i8(self, v: i8) -> Result<(), Err_> {
        self.out.push(Tok::I8(v));
        Ok(())
    }
    fn serialize_u32(self, v: u32) -> Result<(), Err_> {
        self.out.push(Tok::U32(v));
        Ok(())
    }
    fn serialize_u64(self, v: u64) -> Result<(), Err_> {
        self.out.push(Tok::U64(v));
        Ok(())
    }
    fn serialize_i64(self, v: i64) -> Result<(), Err_> {
        self.out.push(Tok::I64(v));
        Ok(())
    }
    other!(serialize_bool, bool);
    fn serialize_i16(self, v: i16) -> Result<(), Err_> {
        self.out.push(Tok::I64(v as i64));
        Ok(())
    }
    fn serialize_i32(self, v: i32) -> Result<(), Err_> {
        self.out.push(Tok::I64(v as i64));
        Ok(())
    }
    other!(serialize_u8, u8);
    other!(serialize_u16, u16);
    other!(serialize_f32, f32);
    other!(serialize_f64, f64);
    other!(serialize_char, char);
    other!(serialize_bytes, &[u8]);
    fn serialize_str(self, v: &str) -> Result<(), Err_> {
        self.out.push(Tok::Str(v.to_string()));
        Ok(())
    }
    fn serialize_none(self) -> Result<(), Err_> {
        self.out.push(Tok::Other("none"));
        Ok(())
    }
    fn serialize_some<T: ?Sized + Serialize>(self, _v: &T) -> Result<(), Err_> {
        self.out.push(Tok::Other("some"));
        Ok(())
    }
    fn serialize_unit(self) -> Result<(), Err_> {
        self.out.push(Tok::Other("unit"));
        Ok(())
    }
    fn serialize_unit_struct(self, _n: &'static str) -> Result<(), Err_> {
        self.out.push(Tok::Other("unit_struct"));
        Ok(())
    }
    fn serialize_unit_variant(self, _n: &'static str, _i: u32, _v: &'static str) -> Result<(), Err_> {
        self.out.push(Tok::Other("unit_variant"));
        Ok(())
    }
    fn serialize_newtype_struct<T: ?Sized + Serialize>(self, _n: &'static str, _v: &T) -> Result<(), Err_> {
        self.out.push(Tok::Other("newtype_struct"));
        Ok(())
    }
    fn serialize_newtype_variant<T: ?Sized + Serialize>(self, _n: &'static str, _i: u32, _v: &'static str, _x: &T) -> Result<(), Err_> {
        self.out.push(Tok::Other("newtype_variant"));
        Ok(())
    }
    fn serialize_seq(self, len: Option<usize>) -> Result<RecSeq<'a>, Err_> {
        self.out.push(Tok::Seq(len));
        Ok(RecSeq { out: self.out, end: Tok::SeqEnd })
    }
    fn serialize_tuple(self, len: usize) -> Result<RecSeq<'a>, Err_> {
        self.out.push(Tok::Tuple(len));
        Ok(RecSeq { out: self.out, end: Tok::TupleEnd })
    }
    fn serialize_tuple_struct(self, _n: &'static str, _l: usize) -> Result<Self::SerializeTupleStruct, Err_> {
        Err(Err_("tuple_struct".into()))
    }
    fn serialize_tuple_variant(self, _n: &'static str, _i: u32, _v: &'static str, _l: usize) -> Result<Self::SerializeTupleVariant, Err_> {
        Err(Err_("tuple_variant".into()))
    }
    fn serialize_map(self, _l: Option<usize>) -> Result<Self::SerializeMap, Err_> {
        Err(Err_("map".into()))
    }
    fn serialize_struct(self, _n: &'static str, _l: usize) -> Result<Self::SerializeStruct, Err_> {
        Err(Err_("struct".into()))
    }
    fn serialize_struct_variant(self, _n: &'static str, _i: u32, _v: &'static str, _l: usize) -> Result<Self::SerializeStructVariant, Err_> {
        Err(Err_("struct_variant".into()))
    }
}
struct RecSeq<'a> {
    out: &'a mut Vec<Tok>,
    end: Tok,
}
impl<'a> SerializeSeq for RecSeq<'a> {
    type Ok = ();
    type Error = Err_;
    fn serialize_element<T: ?Sized + Serialize>(&mut self, v: &T) -> Result<(), Err_> {
        v.serialize(Rec { out: self.out })
    }
    fn end(self) -> Result<(), Err_> {
        self.out.push(self.end);
        Ok(())
    }
}
impl<'a> SerializeTuple for RecSeq<'a> {
    type Ok = ();
    type Error = Err_;
    fn serialize_element<T: ?Sized + Serialize>(&mut self, v: &T) -> Result<(), Err_> {
        v.serialize(Rec { out: self.out })
    }
    fn end(self) -> Result<(), Err_> {
        self.out.push(self.end);
        Ok(())
    }
}

fn record<T: Serialize>(v: &T) -> Result<Vec<Tok>, String> {
    let mut out = Vec::new();
    v.serialize(Rec { out: &mut out }).map_err(|e| e.0)?;
    Ok(out)
}

// ------------------------------------------------------------------ token-replay deserializer
#[derive(Clone, Copy, Debug, PartialEq)]
enum Hint {
    None,
    Exact,
    Zero,
    Plus5,
    Max,
    // under-reporting hints (legal: a hint is only a hint) -- a hint-driven fast path must hand over to the
    // general loop at any element index, odd ones included
    One,
    Two,
    Three,
    Minus1,
    Half,
}
const HINTS: [Hint; 10] = [Hint::None, Hint::Exact, Hint::Zero, Hint::Plus5, Hint::Max, Hint::One, Hint::Two, Hint::Three, Hint::Minus1, Hint::Half];

struct TokDe<'t> {
    toks: &'t [Tok],
    pos: usize,
    hint: Hint,
}
impl<'t> TokDe<'t> {
    fn next(&mut self) -> Result<Tok, Err_> {
        let t = self.toks.get(self.pos).cloned().ok_or_else(|| Err_("end of tokens".into()))?;
        self.pos += 1;
        Ok(t)
    }
    fn remaining_elems(&self) -> usize {
        // elements until the matching end at depth 0
        let mut depth = 0;
        let mut n = 0;
        for t in &self.toks[self.pos..] {
            match t {
                Tok::Seq(_) | Tok::Tuple(_) => {
                    if depth == 0 {
                        n += 1;
                    }
                    depth += 1;
                }
                Tok::SeqEnd | Tok::TupleEnd => {
                    if depth == 0 {
                        break;
                    }
                    depth -= 1;
                }
                _ => {
                    if depth == 0 {
                        n += 1;
                    }
                }
            }
        }
        n
    }
}
impl<'de, 'a, 't> de::Deserializer<'de> for &'a mut TokDe<'t> {
    type Error = Err_;
    fn is_human_readable(&self) -> bool {
        hr()
    }
    fn deserialize_any<V: Visitor<'de>>(self, visitor: V) -> Result<V::Value, Err_> {
        match self.next()? {
            Tok::U32(v) => visitor.visit_u32(v),
            Tok::U64(v) => visitor.visit_u64(v),
            Tok::I64(v) => visitor.visit_i64(v),
            Tok::I8(v) => visitor.visit_i8(v),
            Tok::Str(s) => visitor.visit_string(s),
            Tok::Seq(_) => {
                let r = visitor.visit_seq(Access { de: self, end: Tok::SeqEnd })?;
                match self.next()? {
                    Tok::SeqEnd => Ok(r),
                    t => Err(Err_(format!("expected end of sequence, found {:?}", t))),
                }
            }
            Tok::Tuple(_) => {
                let r = visitor.visit_seq(Access { de: self, end: Tok::TupleEnd })?;
                match self.next()? {
                    Tok::TupleEnd => Ok(r),
                    t => Err(Err_(format!("expected end of tuple, found {:?}", t))),
                }
            }
            t => Err(Err_(format!("unexpected token {:?}", t))),
        }
    }
    serde::forward_to_deserialize_any! {
        bool i8 i16 i32 i64 i128 u8 u16 u32 u64 u128 f32 f64 char str string bytes byte_buf option unit
        unit_struct newtype_struct seq tuple tuple_struct map struct enum identifier ignored_any
    }
}
struct Access<'a, 't> {
    de: &'a mut TokDe<'t>,
    end: Tok,
}
impl<'de, 'a, 't> SeqAccess<'de> for Access<'a, 't> {
    type Error = Err_;
    fn next_element_seed<S: DeserializeSeed<'de>>(&mut self, seed: S) -> Result<Option<S::Value>, Err_> {
        match self.de.toks.get(self.de.pos) {
            Some(t) if *t == self.end => Ok(None),
            None => Ok(None),
            _ => seed.deserialize(&mut *self.de).map(Some),
        }
    }
    fn size_hint(&self) -> Option<usize> {
        let n = self.de.remaining_elems();
        match self.de.hint {
            Hint::None => None,
            Hint::Exact => Some(n),
            Hint::Zero => Some(0),
            Hint::Plus5 => Some(n + 5),
            Hint::Max => Some(usize::MAX),
            Hint::One => Some(1),
            Hint::Two => Some(2),
            Hint::Three => Some(3),
            Hint::Minus1 => Some(n.saturating_sub(1)),
            Hint::Half => Some(n / 2),
        }
    }
}
fn replay<T: for<'d> Deserialize<'d>>(toks: &[Tok], hint: Hint) -> Result<T, String> {
    let mut d = TokDe { toks, pos: 0, hint };
    let v = T::deserialize(&mut d).map_err(|e| e.0)?;
    if d.pos != toks.len() {
        return Err(format!("trailing tokens: consumed {} of {}", d.pos, toks.len()));
    }
    Ok(v)
}

/// The emitted token stream against the expected one, up to what the property leaves open: the sequence
/// length may be declared (then it must be the number of digits emitted) or left undeclared, and the sign may
/// be written through any signed integer width; the digits themselves must be u32 tokens.
fn same_stream(got: &Out<Result<Vec<Tok>, String>>, want: &[Tok]) -> bool {
    let got = match got {
        Out::Ret(Ok(g)) => g,
        _ => return false,
    };
    if got.len() != want.len() {
        return false;
    }
    got.iter().zip(want.iter()).all(|(g, w)| match (g, w) {
        (Tok::Seq(None), Tok::Seq(Some(_))) => true,
        (Tok::I64(a), Tok::I8(b)) => *a == *b as i64,
        (a, b) => a == b,
    })
}
/// runs `f` once as a human-readable format and once as a compact (non-human-readable) one
fn both_kinds(ctx: &mut Ctx, mut f: impl FnMut(&mut Ctx)) {
    for h in [true, false] {
        HUMAN_READABLE.store(h, std::sync::atomic::Ordering::Relaxed);
        ctx.key_suffix = kind().to_string();
        f(ctx);
    }
    HUMAN_READABLE.store(true, std::sync::atomic::Ordering::Relaxed);
    ctx.key_suffix.clear();
}
fn seq_tokens(w: &[u32], declared: Option<usize>) -> Vec<Tok> {
    let mut t = vec![Tok::Seq(declared)];
    t.extend(w.iter().map(|&x| Tok::U32(x)));
    t.push(Tok::SeqEnd);
    t
}

fn ser_value(ctx: &mut Ctx, v: &Int) {
    ctx.case();
    if v.mag.bits() > 32 {
        ctx.nontrivial(1);
    }
    let digits = v.mag.to_u32_digits();
    let want_u = seq_tokens(&digits, Some(digits.len()));
    let args = || vec![format!("v={}", v.to_hex())];
    let x = bi_int(v);
    ctx.outcome_digits(v.mag.digits());
    if !v.neg {
        let u = bu_nat(&v.mag);
        let r = call(ctx, || record(&u));
        ctx.compared(1);
        if !same_stream(&r, &want_u) {
            ctx.viol(format!("serialize BigUint v={}", v.to_hex()), "token stream is not seq(len){base-2^32 digits, least significant first, no trailing zero}", args(), format!("{:?}", want_u), format!("{:?}", r));
        }
        // round trip through the recorder with every hint, and through JSON
        if let Out::Ret(Ok(toks)) = &r {
            for h in HINTS {
                let b = call(ctx, || replay::<BigUint>(toks, h).map(|y| nat_of(&y)));
                ctx.compared(1);
                if b != Out::Ret(Ok(v.mag.clone())) {
                    ctx.viol(format!("roundtrip BigUint v={} hint={:?}", v.to_hex(), h), "deserialize(serialize(x)) != x", args(), v.mag.to_hex(), format!("{:?}", b));
                }
            }
        }
        let j = call(ctx, || {
            let s = serde_json::to_string(&u).map_err(|e| e.to_string())?;
            let back: BigUint = serde_json::from_str(&s).map_err(|e| e.to_string())?;
            Ok::<(String, Nat), String>((s, nat_of(&back)))
        });
        ctx.compared(1);
        let want_json = format!("[{}]", digits.iter().map(|d| d.to_string()).collect::<Vec<_>>().join(","));
        if j != Out::Ret(Ok((want_json.clone(), v.mag.clone()))) {
            ctx.viol(format!("serde_json BigUint v={}", v.to_hex()), "JSON form or round trip wrong", args(), want_json, format!("{:?}", j));
        }
    }
    let sign = v.signum() as i8;
    let mut want_i = vec![Tok::Tuple(2), Tok::I8(sign)];
    want_i.extend(want_u.clone());
    want_i.push(Tok::TupleEnd);
    let r = call(ctx, || record(&x));
    ctx.compared(1);
    if !same_stream(&r, &want_i) {
        ctx.viol(format!("serialize BigInt v={}", v.to_hex()), "token stream is not tuple(2){i8 sign, seq of base-2^32 digits}", args(), format!("{:?}", want_i), format!("{:?}", r));
    }
    if let Out::Ret(Ok(toks)) = &r {
        for h in HINTS {
            let b = call(ctx, || replay::<BigInt>(toks, h).map(|y| int_of(&y)));
            ctx.compared(1);
            if b != Out::Ret(Ok(v.clone())) {
                ctx.viol(format!("roundtrip BigInt v={} hint={:?}", v.to_hex(), h), "deserialize(serialize(x)) != x", args(), v.to_hex(), format!("{:?}", b));
            }
        }
    }
    let j = call(ctx, || {
        let s = serde_json::to_string(&x).map_err(|e| e.to_string())?;
        let back: BigInt = serde_json::from_str(&s).map_err(|e| e.to_string())?;
        Ok::<(String, Int), String>((s, int_of(&back)))
    });
    ctx.compared(1);
    let want_json = format!("[{},[{}]]", sign, digits.iter().map(|d| d.to_string()).collect::<Vec<_>>().join(","));
    if j != Out::Ret(Ok((want_json.clone(), v.clone()))) {
        ctx.viol(format!("serde_json BigInt v={}", v.to_hex()), "JSON form or round trip wrong", args(), want_json, format!("{:?}", j));
    }
}

/// value of a BigInt if it is canonical (no trailing zero digit, NoSign iff zero)
fn int_chk_quiet(b: &BigInt) -> Option<Int> {
    let (s, d) = b.to_u64_digits();
    let zero = d.iter().all(|&x| x == 0);
    if d.last() == Some(&0) || (s == Sign::NoSign) != zero {
        return None;
    }
    Some(Int::new(s == Sign::Minus, Nat::from_digits(&d)))
}
fn de_words(ctx: &mut Ctx, w: &[u32], signs: bool) {
    let mag = Nat::from_u32_digits(w);
    for h in HINTS {
        for declared in [Some(w.len()), None] {
            ctx.case();
            if w.last() == Some(&0) || w.len() % 2 == 1 {
                ctx.nontrivial(1);
            }
            let toks = seq_tokens(w, declared);
            let args = || vec![format!("u32 seq={:x?}", w), format!("hint={:?}", h)];
            let r = call(ctx, || replay::<BigUint>(&toks, h));
            match r {
                Out::Ret(Ok(y)) => expect_nat(ctx, "deserialize BigUint", &args, Out::Ret(y), &mag),
                other => {
                    ctx.compared(1);
                    ctx.viol(format!("deserialize BigUint seq={:x?} hint={:?}", w, h), "valid u32 sequence rejected or panicked", args(), mag.to_hex(), format!("{:?}", other.map_dbg()));
                }
            }
            if !signs {
                continue;
            }
            for s in i8::MIN..=i8::MAX {
                ctx.case();
                let mut t = vec![Tok::Tuple(2), Tok::I8(s)];
                t.extend(toks.clone());
                t.push(Tok::TupleEnd);
                let args = || vec![format!("sign={}", s), format!("u32 seq={:x?}", w), format!("hint={:?}", h)];
                let r = call(ctx, || replay::<BigInt>(&t, h));
                let valid = (-1..=1).contains(&s);
                if valid && ((s == 0) != mag.is_zero()) {
                    ctx.nontrivial(1);
                }
                match (valid, r) {
                    (true, Out::Ret(Ok(y))) => {
                        let want = if s == 0 { Int::zero() } else { Int::new(s < 0, mag.clone()) };
                        expect_int(ctx, "deserialize BigInt", &args, Out::Ret(y), &want);
                    }
                    (false, Out::Ret(Err(_))) => ctx.compared(1),
                    (_, other) => {
                        ctx.compared(1);
                        ctx.viol(format!("deserialize BigInt sign={} seq={:x?} hint={:?}", s, w, h), if valid { "valid (sign, sequence) pair rejected or panicked" } else { "invalid sign value accepted (or panic)" }, args(), if valid { "canonical value".into() } else { "Err".into() }, format!("{:?}", other.map_dbg()));
                    }
                }
            }
        }
    }
}

trait MapDbg {
    fn map_dbg(self) -> String;
}
impl<T: fmt::Debug> MapDbg for Out<T> {
    fn map_dbg(self) -> String {
        match self {
            Out::Ret(v) => format!("{:?}", v),
            Out::Panic(m) => format!("panic: {}", m),
        }
    }
}

fn odometer(syms: usize, len: usize, mut f: impl FnMut(&[usize])) {
    let mut idx = vec![0usize; len];
    loop {
        f(&idx);
        let mut p = 0;
        loop {
            if p == len {
                return;
            }
            idx[p] += 1;
            if idx[p] < syms {
                break;
            }
            idx[p] = 0;
            p += 1;
        }
    }
}

fn body(ctx: &mut Ctx) {
    let tier = ctx.tier;
    if ctx.space("S") {
        let mut vals: Vec<Nat> = alpha::dense(&alpha::SIGMA32, 3).iter().map(|d| Nat::from_digits(d)).collect();
        if tier == Tier::Thorough {
            for l in [4usize, 5, 16, 17, 40] {
                for p in 0..alpha::NPAT {
                    vals.push(Nat::from_digits(&alpha::pat(l, p)));
                    let mut d = alpha::pat(l, p);
                    d[l - 1] &= 0xffff_ffff;
                    if d[l - 1] == 0 {
                        d[l - 1] = 1;
                    }
                    vals.push(Nat::from_digits(&d));
                }
            }
        }
        for (i, n) in vals.iter().enumerate() {
            if !ctx.mine(i as u64) {
                continue;
            }
            both_kinds(ctx, |ctx| {
                ser_value(ctx, &Int::new(false, n.clone()));
                if !n.is_zero() {
                    ser_value(ctx, &Int::new(true, n.clone()));
                }
            });
            ctx.sample(|| format!("v=+-{}: recorded tokens, replay with 10 size hints, serde_json text and round trip", n.to_hex()));
        }
    }
    let syms = [0u32, 1, u32::MAX];
    if ctx.space("D1") {
        let maxlen = tier.pick(7, 9);
        let mut o = 0u64;
        both_kinds(ctx, |ctx| de_words(ctx, &[], true));
        for len in 1..=maxlen {
            odometer(3, len, |idx| {
                let take = ctx.mine(o);
                o += 1;
                if !take {
                    return;
                }
                let w: Vec<u32> = idx.iter().map(|&i| syms[i]).collect();
                both_kinds(ctx, |ctx| de_words(ctx, &w, false));
                if o % 501 == 0 {
                    ctx.sample(|| format!("u32 token sequence {:x?} x 10 size hints x declared/undeclared length -> BigUint", w));
                }
            });
        }
    }
    if ctx.space("D2") {
        let maxlen = tier.pick(5, 7);
        let mut o = 0u64;
        for len in 1..=maxlen {
            odometer(3, len, |idx| {
                let take = ctx.mine(o);
                o += 1;
                if !take {
                    return;
                }
                let w: Vec<u32> = idx.iter().map(|&i| syms[i]).collect();
                both_kinds(ctx, |ctx| de_words(ctx, &w, true));
                if o % 101 == 0 {
                    ctx.sample(|| format!("(sign, {:x?}) for every i8 sign token x 10 size hints -> BigInt", w));
                }
            });
        }
    }
    // D4: long sequences, around and beyond the deserializer's pre-allocation cap (1 MiB = 262144 u32 elements)
    if ctx.space("D4") {
        let lens: Vec<usize> = tier.pick(vec![63, 64, 65, 1000, 262143, 262144, 262145, 300001], vec![63, 64, 65, 1000, 4097, 262143, 262144, 262145, 300001, 600003]);
        let mut o = 0u64;
        for &l in &lens {
            for pat in 0..3 {
                let take = ctx.mine(o);
                o += 1;
                if !take {
                    continue;
                }
                let mut st = 0xfeed_beef_0000_0001u64 ^ l as u64;
                let mut w: Vec<u32> = match pat {
                    0 => (0..l).map(|_| (alpha::lcg(&mut st) >> 32) as u32).collect(),
                    1 => vec![u32::MAX; l],
                    _ => {
                        let mut v: Vec<u32> = (0..l).map(|_| (alpha::lcg(&mut st) >> 32) as u32).collect();
                        for x in v.iter_mut().skip(l - l / 3) {
                            *x = 0; // a third of the sequence is redundant trailing zeros
                        }
                        v
                    }
                };
                if pat == 0 {
                    w[l - 1] |= 1;
                }
                let mag = Nat::from_u32_digits(&w);
                for h in HINTS {
                    for declared in [Some(w.len()), None] {
                        ctx.case();
                        ctx.nontrivial(1);
                        let toks = seq_tokens(&w, declared);
                        let id = format!("len={} pattern={} hint={:?} declared={:?}", l, pat, h, declared);
                        let args = || vec![id.clone()];
                        let r = call(ctx, || replay::<BigUint>(&toks, h).map(|y| nat_of(&y) == mag));
                        ctx.compared(1);
                        if r != Out::Ret(Ok(true)) {
                            ctx.viol(format!("deserialize long BigUint {}", id), "long u32 sequence not deserialized to the value it denotes", args(), "the denoted value".into(), format!("{:?}", r.map_dbg()));
                        }
                        if h == Hint::Exact || h == Hint::Max {
                            for sg in [-1i8, 1] {
                                let mut t = vec![Tok::Tuple(2), Tok::I8(sg)];
                                t.extend(toks.clone());
                                t.push(Tok::TupleEnd);
                                let want = if mag.is_zero() { Int::zero() } else { Int::new(sg < 0, mag.clone()) };
                                let r = call(ctx, || replay::<BigInt>(&t, h).map(|y| int_chk_quiet(&y) == Some(want.clone())));
                                ctx.compared(1);
                                if r != Out::Ret(Ok(true)) {
                                    ctx.viol(format!("deserialize long BigInt sign={} {}", sg, id), "long (sign, sequence) pair not deserialized to the canonical value it denotes", args(), "the denoted value".into(), format!("{:?}", r.map_dbg()));
                                }
                            }
                        }
                    }
                }
                // and back out: the value serializes as exactly its digits
                if pat != 2 {
                    let u = bu_nat(&mag);
                    let want = seq_tokens(&mag.to_u32_digits(), Some(mag.to_u32_digits().len()));
                    let r = call(ctx, || record(&u));
                    ctx.compared(1);
                    let r = if same_stream(&r, &want) { Out::Ret(Ok::<bool, String>(true)) } else { Out::Ret(Ok(false)) };
                    if r != Out::Ret(Ok(true)) {
                        ctx.viol(format!("serialize long BigUint len={} pattern={}", l, pat), "long value not serialized as exactly its base-2^32 digits", vec![], "its digits".into(), format!("{:?}", r.map_dbg()));
                    }
                }
                ctx.sample(|| format!("u32 sequence of {} elements (pattern {}) x 10 size hints x declared/undeclared length", l, pat));
            }
        }
    }
    if ctx.space("D3") && ctx.mine(0) {
        // ill-typed elements must be rejected by the error path, never crash
        let bad: Vec<Vec<Tok>> = vec![
            vec![Tok::Seq(Some(1)), Tok::U64(1 << 32), Tok::SeqEnd],
            vec![Tok::Seq(Some(2)), Tok::U32(1), Tok::U64(u64::MAX), Tok::SeqEnd],
            vec![Tok::Seq(Some(1)), Tok::I64(-1), Tok::SeqEnd],
            vec![Tok::Seq(Some(2)), Tok::U32(1), Tok::I64(-5), Tok::SeqEnd],
            vec![Tok::Seq(None), Tok::Str("1".into()), Tok::SeqEnd],
            vec![Tok::U32(5)],
            vec![Tok::Seq(Some(1)), Tok::Seq(Some(0)), Tok::SeqEnd, Tok::SeqEnd],
        ];
        for t in &bad {
            for h in HINTS {
                ctx.case();
                ctx.nontrivial(1);
                ctx.compared(2);
                let r = call(ctx, || replay::<BigUint>(t, h).map(|y| nat_of(&y)));
                if !matches!(r, Out::Ret(Err(_))) {
                    ctx.viol(format!("ill-typed BigUint tokens {:?} hint={:?}", t, h), "ill-typed token sequence was accepted or crashed", vec![], "Err".into(), format!("{:?}", r));
                }
                let mut ti = vec![Tok::Tuple(2), Tok::I8(1)];
                ti.extend(t.clone());
                ti.push(Tok::TupleEnd);
                let r = call(ctx, || replay::<BigInt>(&ti, h).map(|y| int_of(&y)));
                if !matches!(r, Out::Ret(Err(_))) {
                    ctx.viol(format!("ill-typed BigInt tokens {:?} hint={:?}", t, h), "ill-typed token sequence was accepted or crashed", vec![], "Err".into(), format!("{:?}", r));
                }
            }
        }
        // acceptable alternative spellings: u64 tokens that fit u32 are fine for a self-describing format
        for h in HINTS {
            ctx.case();
            let t = vec![Tok::Seq(Some(3)), Tok::U64(7), Tok::U64(0), Tok::U64(0), Tok::SeqEnd];
            let r = call(ctx, || replay::<BigUint>(&t, h));
            match r {
                Out::Ret(Ok(y)) => expect_nat(ctx, "deserialize BigUint from u64 tokens", &|| vec![], Out::Ret(y), &Nat::from_u64(7)),
                other => ctx.viol(format!("u64-token sequence hint={:?}", h), "in-range u64 tokens rejected", vec![], "7".into(), format!("{:?}", other.map_dbg())),
            }
        }
        // the sign delivered through a wider integer token (what a self-describing format does): values other than
        // -1, 0, 1 must be rejected whatever the width -- no truncation to 8 bits -- and the three valid ones accepted
        for mag in [vec![Tok::Seq(Some(1)), Tok::U32(5), Tok::SeqEnd], vec![Tok::Seq(Some(0)), Tok::SeqEnd]] {
            for s in [2i64, -2, 127, 128, 255, 256, 257, -255, -256, -257, 65535, 65536, 65537, (1 << 32) - 1, 1 << 32, (1 << 32) + 1, -(1 << 32) - 1, i64::MAX, i64::MIN, i64::MIN + 1, 1, 0, -1] {
                for wide in [Tok::I64(s), Tok::U64(s as u64)] {
                    if matches!(wide, Tok::U64(_)) && s < 0 {
                        continue;
                    }
                    ctx.case();
                    ctx.nontrivial(1);
                    ctx.compared(1);
                    let mut t = vec![Tok::Tuple(2), wide.clone()];
                    t.extend(mag.clone());
                    t.push(Tok::TupleEnd);
                    let r = call(ctx, || replay::<BigInt>(&t, Hint::Exact).map(|y| int_of(&y)));
                    let valid = (-1..=1).contains(&s);
                    let nonzero = mag.len() > 2;
                    let ok = if valid {
                        let want = if s == 0 || !nonzero { Int::zero() } else { Int::new(s < 0, Nat::from_u64(5)) };
                        r == Out::Ret(Ok(want))
                    } else {
                        matches!(r, Out::Ret(Err(_)))
                    };
                    if !ok {
                        ctx.viol(format!("wide sign token {:?} mag={}", wide, if nonzero { "[5]" } else { "[]" }), "a sign delivered through a wider integer: -1, 0, 1 must be accepted, every other value rejected (no truncation)", vec![], if valid { "the denoted value".into() } else { "Err".into() }, format!("{:?}", r));
                    }
                }
            }
        }
        // wrong tuple arity / missing parts for BigInt
        for t in [vec![Tok::Tuple(1), Tok::I8(1), Tok::TupleEnd], vec![Tok::Tuple(2), Tok::Seq(Some(0)), Tok::SeqEnd, Tok::I8(1), Tok::TupleEnd], vec![Tok::Tuple(0), Tok::TupleEnd]] {
            ctx.case();
            ctx.compared(1);
            let r = call(ctx, || replay::<BigInt>(&t, Hint::Exact).map(|y| int_of(&y)));
            if !matches!(r, Out::Ret(Err(_))) {
                ctx.viol(format!("malformed BigInt tuple {:?}", t), "malformed (sign, sequence) tuple was accepted or crashed", vec![], "Err".into(), format!("{:?}", r));
            }
        }
        ctx.sample(|| "ill-typed elements (u64 above 2^32-1, negative, string, nested seq, bare scalar) must give Err for every size hint".to_string());
    }
    if ctx.space("J") && ctx.mine(0) {
        // JSON texts with trailing zeros / odd lengths / inconsistent signs
        let cases: Vec<(&str, Option<Int>)> = vec![
            ("[1,[5,0,0]]", Some(Int::from_i64(5))),
            ("[-1,[0,1,0]]", Some(Int::new(true, Nat::from_u64(1 << 32)))),
            ("[0,[5]]", Some(Int::zero())),
            ("[1,[]]", Some(Int::zero())),
            ("[-1,[0,0,0]]", Some(Int::zero())),
            ("[2,[1]]", None),
            ("[-2,[1]]", None),
            ("[1,[4294967296]]", None),
            ("[1,[-1]]", None),
            ("[1,[4294967295,4294967295,4294967295]]", Some(Int::new(false, Nat::from_digits(&[u64::MAX, 0xffff_ffff])))),
        ];
        for (txt, want) in cases {
            ctx.case();
            ctx.nontrivial(1);
            ctx.compared(1);
            let r = call(ctx, || serde_json::from_str::<BigInt>(txt).ok().map(|y| int_of(&y)));
            if r != Out::Ret(want.clone()) {
                ctx.viol(format!("serde_json text {}", txt), "JSON text not deserialized to the canonical value it denotes (or invalid text accepted)", vec![txt.to_string()], format!("{:?}", want.map(|w| w.to_hex())), format!("{:?}", r));
            }
        }
        ctx.sample(|| "serde_json texts: trailing zeros, empty sequence, sign 0 with digits, sign +-1 with zero digits, invalid signs, out-of-range elements".to_string());
    }
}

fn main() {
    runner::main(SPEC, body)
}
