//! C14 -- operations fail only in their documented cases, and checked variants never panic.
//!
//! This binary enumerates the documented-failure set explicitly (F1) and sweeps every checked_*
//! method over failure and non-failure operands (F3).  The complement (F2: "in all other
//! situations no operation panics, trips an internal assertion, overflows in a debug build,
//! faults the process or fails to terminate") is covered by re-running the value-property
//! binaries in the release and the debug-assertion profile with the oracle reduced to the outcome
//! class (checks/c14.sh).
use nbmc::*;
use num_integer::{Integer, Roots};
use num_traits::{CheckedAdd, CheckedDiv, CheckedEuclid, CheckedMul, CheckedSub, Num};

const SPEC: Spec = Spec {
    id: "C14",
    engine: "E-prod x profiles (explicit enumeration of the documented-failure set and of every checked_* method; the complement is the quick/thorough spaces of the value properties re-run in both profiles under fault and hang detection)",
    rule: "every (operation, operands) of the documented-failure set must panic (never return a value) and every checked_* method must return None there and Some(exact) elsewhere without panicking; a case is non-trivial when the operand is non-zero / multi-digit so that a wrong value could be produced instead of a panic",
    assumptions: &[
        "operations whose result cannot fit in memory are out of scope (property text); alphabets keep every result below 2^20 digits",
        "the debug profile is represented by opt-level 1 + debug-assertions + overflow-checks ('relcheck')",
        "radix values are the stated out-of-range set, not all 2^32 radices",
    ],
    bounds_quick: "F1 radix {0,1,37,100,256,257,512,1024,2^31,u32::MAX} x text APIs, {0,1,257,300,512,1000,1024,65536,u32::MAX} x digit-vector APIs, x 6 values x both types; BigUint scalar subtraction below zero over Dense(S5,2) x scalar alphabet; dec() of zero; F3 every checked_* of both types over Dense(S5,2)^2 (4 sign pairs)",
    bounds_thorough: "same with Dense(S5,3) x Dense(S5,2) for F3",
    hang_secs: 30,
    probes: None,
    max_workers: 16,
};

fn body(ctx: &mut Ctx) {
    let tier = ctx.tier;
    // ---- F1a: radix outside the allowed range
    if ctx.space("F1-radix") && ctx.mine(0) {
        let vals: Vec<Nat> = vec![Nat::zero(), Nat::one(), Nat::from_u64(35), Nat::from_u64(1000), Nat::one().shl(70).add(&Nat::from_u64(999)), Nat::from_digits(&alpha::pat(66, 10))];
        let text_bad = [0u32, 1, 37, 100, 256, 257, 512, 1024, 1 << 31, u32::MAX];
        let digit_bad = [0u32, 1, 257, 300, 512, 1000, 1024, 65536, 1 << 31, u32::MAX];
        for v in &vals {
            let u = bu_nat(v);
            let p = BigInt::from(u.clone());
            let n = -p.clone();
            for &r in &text_bad {
                ctx.case();
                if !v.is_zero() {
                    ctx.nontrivial(1);
                }
                let args = || vec![format!("v={}", v.to_hex()), format!("radix={}", r)];
                let x = call(ctx, || u.to_str_radix(r).into_bytes());
                expect_panic(ctx, "BigUint::to_str_radix(bad radix)", &args, x);
                let x = call(ctx, || p.to_str_radix(r).into_bytes());
                expect_panic(ctx, "BigInt::to_str_radix(bad radix)", &args, x);
                let x = call(ctx, || n.to_str_radix(r).into_bytes());
                expect_panic(ctx, "BigInt::to_str_radix(bad radix, negative)", &args, x);
                let x = call(ctx, || BigUint::from_str_radix("10", r).map(|y| nat_of(&y).to_hex()).map_err(|_| ()));
                expect_panic(ctx, "BigUint::from_str_radix(bad radix)", &args, x);
                let x = call(ctx, || BigInt::from_str_radix("-10", r).map(|y| int_of(&y).to_hex()).map_err(|_| ()));
                expect_panic(ctx, "BigInt::from_str_radix(bad radix)", &args, x);
                let x = call(ctx, || BigUint::parse_bytes(b"10", r).map(|y| nat_of(&y).to_hex()));
                expect_panic(ctx, "BigUint::parse_bytes(bad radix)", &args, x);
                let x = call(ctx, || BigInt::parse_bytes(b"10", r).map(|y| int_of(&y).to_hex()));
                expect_panic(ctx, "BigInt::parse_bytes(bad radix)", &args, x);
            }
            for &r in &digit_bad {
                ctx.case();
                if !v.is_zero() {
                    ctx.nontrivial(1);
                }
                let args = || vec![format!("v={}", v.to_hex()), format!("radix={}", r)];
                let x = call(ctx, || u.to_radix_le(r));
                expect_panic(ctx, "BigUint::to_radix_le(bad radix)", &args, x);
                let x = call(ctx, || u.to_radix_be(r));
                expect_panic(ctx, "BigUint::to_radix_be(bad radix)", &args, x);
                let x = call(ctx, || n.to_radix_le(r));
                expect_panic(ctx, "BigInt::to_radix_le(bad radix)", &args, x);
                let x = call(ctx, || p.to_radix_be(r));
                expect_panic(ctx, "BigInt::to_radix_be(bad radix)", &args, x);
                let x = call(ctx, || BigUint::from_radix_le(&[1, 0], r).map(|y| nat_of(&y).to_hex()));
                expect_panic(ctx, "BigUint::from_radix_le(bad radix)", &args, x);
                let x = call(ctx, || BigUint::from_radix_be(&[1, 0], r).map(|y| nat_of(&y).to_hex()));
                expect_panic(ctx, "BigUint::from_radix_be(bad radix)", &args, x);
                let x = call(ctx, || BigInt::from_radix_le(Sign::Minus, &[1, 0], r).map(|y| int_of(&y).to_hex()));
                expect_panic(ctx, "BigInt::from_radix_le(bad radix)", &args, x);
                let x = call(ctx, || BigInt::from_radix_be(Sign::Plus, &[], r).map(|y| int_of(&y).to_hex()));
                expect_panic(ctx, "BigInt::from_radix_be(bad radix, empty digits)", &args, x);
            }
        }
        ctx.sample(|| format!("radix in {:?} (text) / {:?} (digit vectors) x 6 values x both types: every conversion must panic", text_bad, digit_bad));
        // in-range radices at the edges must NOT panic
        for v in &vals {
            let u = bu_nat(v);
            for r in [2u32, 36] {
                ctx.case();
                let x = call(ctx, || u.to_str_radix(r).into_bytes());
                ctx.compared(1);
                if let Out::Panic(m) = x {
                    ctx.viol(format!("to_str_radix({}) v={}", r, v.to_hex()), "unexpected panic for an allowed radix", vec![], "text".into(), m);
                }
            }
            for r in [2u32, 255, 256] {
                ctx.case();
                let x = call(ctx, || u.to_radix_le(r));
                ctx.compared(1);
                if let Out::Panic(m) = x {
                    ctx.viol(format!("to_radix_le({}) v={}", r, v.to_hex()), "unexpected panic for an allowed radix", vec![], "digits".into(), m);
                }
            }
        }
    }
    // ---- F1b: BigUint scalar subtraction below zero, dec of zero
    if ctx.space("F1-scalar-sub") {
        let bigs = alpha::dense(&alpha::SIGMA5, 2);
        let scal = alpha::scal_u64();
        for (i, d) in bigs.iter().enumerate() {
            if !ctx.mine(i as u64) {
                continue;
            }
            let n = Nat::from_digits(d);
            let u = bu_nat(&n);
            for &s in &scal {
                ctx.case();
                ctx.nontrivial(1);
                let sn = Nat::from_u64(s);
                let args = || vec![format!("big={}", n.to_hex()), format!("s={:x}", s)];
                // big - s
                match n.sub(&sn) {
                    Some(w) => {
                        let x = call(ctx, || &u - s);
                        expect_nat(ctx, "BigUint &big-u64", &args, x, &w);
                        let x = call(ctx, || {
                            let mut t = u.clone();
                            t -= s;
                            t
                        });
                        expect_nat(ctx, "BigUint big-=u64", &args, x, &w);
                    }
                    None => {
                        let x = call(ctx, || &u - s);
                        expect_panic(ctx, "BigUint &big-u64 (below zero)", &args, x);
                        let x = call(ctx, || u.clone() - (s as u128));
                        expect_panic(ctx, "BigUint big-u128 (below zero)", &args, x);
                        let x = call(ctx, || {
                            let mut t = u.clone();
                            t -= s;
                            t
                        });
                        expect_panic(ctx, "BigUint big-=u64 (below zero)", &args, x);
                        if s <= u32::MAX as u64 {
                            let x = call(ctx, || &u - (s as u32));
                            expect_panic(ctx, "BigUint &big-u32 (below zero)", &args, x);
                        }
                    }
                }
                // s - big
                match sn.sub(&n) {
                    Some(w) => {
                        let x = call(ctx, || s - &u);
                        expect_nat(ctx, "BigUint u64-&big", &args, x, &w);
                        let x = call(ctx, || (s as u128) - u.clone());
                        expect_nat(ctx, "BigUint u128-big", &args, x, &w);
                    }
                    None => {
                        let x = call(ctx, || s - &u);
                        expect_panic(ctx, "BigUint u64-&big (below zero)", &args, x);
                        let x = call(ctx, || (s as u128) - u.clone());
                        expect_panic(ctx, "BigUint u128-big (below zero)", &args, x);
                        if s <= u32::MAX as u64 {
                            let x = call(ctx, || (s as u32) - u.clone());
                            expect_panic(ctx, "BigUint u32-big (below zero)", &args, x);
                        }
                    }
                }
            }
            ctx.sample(|| format!("big={} with every scalar: big-s and s-big must panic exactly when the result would be negative", n.to_hex()));
        }
        if ctx.mine(1 << 40) {
            ctx.case();
            let x = call(ctx, || {
                let mut z = BigUint::ZERO;
                z.dec();
                z
            });
            expect_panic(ctx, "BigUint::dec of zero", &|| vec![], x);
            let x = call(ctx, || BigUint::ZERO.nth_root(0));
            expect_panic(ctx, "BigUint::nth_root(0) of zero", &|| vec![], x);
        }
    }
    // ---- F3: every checked_* method: Some(exact) / None, never a panic
    if ctx.space("F3-checked") {
        let a_set = alpha::dense(&alpha::SIGMA5, tier.pick(2, 3));
        let b_set = alpha::dense(&alpha::SIGMA5, 2);
        for (i, ad) in a_set.iter().enumerate() {
            if !ctx.mine(i as u64) {
                continue;
            }
            let an = Nat::from_digits(ad);
            for bd in &b_set {
                let bn = Nat::from_digits(bd);
                ctx.case();
                if !an.is_zero() {
                    ctx.nontrivial(1);
                }
                let (u, v) = (bu_nat(&an), bu_nat(&bn));
                let args = || vec![format!("a={}", an.to_hex()), format!("b={}", bn.to_hex())];
                let chk = |ctx: &mut Ctx, form: &str, got: Out<Option<BigUint>>, want: Option<Nat>| {
                    ctx.compared(1);
                    let ok = match (&got, &want) {
                        (Out::Ret(Some(g)), Some(w)) => &nat_of(g) == w,
                        (Out::Ret(None), None) => true,
                        _ => false,
                    };
                    if !ok {
                        ctx.viol(format!("{} {}", form, args().join(" ")), "checked method: must be Some(exact result) or None in the failure case, never a panic", args(), format!("{:?}", want.map(|w| w.to_hex())), format!("{:?}", got));
                    }
                };
                let qr = if bn.is_zero() { None } else { Some(an.divrem(&bn)) };
                let x = call(ctx, || u.checked_add(&v));
                chk(ctx, "BigUint checked_add", x, Some(an.add(&bn)));
                let x = call(ctx, || u.checked_sub(&v));
                chk(ctx, "BigUint checked_sub", x, an.sub(&bn));
                let x = call(ctx, || u.checked_mul(&v));
                chk(ctx, "BigUint checked_mul", x, Some(an.mul(&bn)));
                let x = call(ctx, || u.checked_div(&v));
                chk(ctx, "BigUint checked_div", x, qr.clone().map(|q| q.0));
                let x = call(ctx, || u.checked_div_euclid(&v));
                chk(ctx, "BigUint checked_div_euclid", x, qr.clone().map(|q| q.0));
                let x = call(ctx, || u.checked_rem_euclid(&v));
                chk(ctx, "BigUint checked_rem_euclid", x, qr.clone().map(|q| q.1));
                let x = call(ctx, || CheckedEuclid::checked_div_rem_euclid(&u, &v).map(|(q, _)| q));
                chk(ctx, "BigUint checked_div_rem_euclid.0", x, qr.clone().map(|q| q.0));
                let x = call(ctx, || CheckedEuclid::checked_div_rem_euclid(&u, &v).map(|(_, r)| r));
                chk(ctx, "BigUint checked_div_rem_euclid.1", x, qr.clone().map(|q| q.1));
                for (sa, sb) in [(false, false), (false, true), (true, false), (true, true)] {
                    let ai = Int::new(sa, an.clone());
                    let bi = Int::new(sb, bn.clone());
                    let (p, q) = (bi_int(&ai), bi_int(&bi));
                    let iargs = || vec![format!("a={}", ai.to_hex()), format!("b={}", bi.to_hex())];
                    let ichk = |ctx: &mut Ctx, form: &str, got: Out<Option<BigInt>>, want: Option<Int>| {
                        ctx.compared(1);
                        let ok = match (&got, &want) {
                            (Out::Ret(Some(g)), Some(w)) => &int_of(g) == w,
                            (Out::Ret(None), None) => true,
                            _ => false,
                        };
                        if !ok {
                            ctx.viol(format!("{} {}", form, iargs().join(" ")), "checked method: must be Some(exact result) or None in the failure case, never a panic", iargs(), format!("{:?}", want.map(|w| w.to_hex())), format!("{:?}", got));
                        }
                    };
                    let nz = !bi.is_zero();
                    let x = call(ctx, || p.checked_add(&q));
                    ichk(ctx, "BigInt checked_add", x, Some(ai.add(&bi)));
                    let x = call(ctx, || p.checked_sub(&q));
                    ichk(ctx, "BigInt checked_sub", x, Some(ai.sub(&bi)));
                    let x = call(ctx, || p.checked_mul(&q));
                    ichk(ctx, "BigInt checked_mul", x, Some(ai.mul(&bi)));
                    let x = call(ctx, || p.checked_div(&q));
                    ichk(ctx, "BigInt checked_div", x, if nz { Some(ai.divrem_trunc(&bi).0) } else { None });
                    let x = call(ctx, || CheckedAdd::checked_add(&p, &q));
                    ichk(ctx, "CheckedAdd for BigInt", x, Some(ai.add(&bi)));
                    let x = call(ctx, || CheckedSub::checked_sub(&p, &q));
                    ichk(ctx, "CheckedSub for BigInt", x, Some(ai.sub(&bi)));
                    let x = call(ctx, || CheckedMul::checked_mul(&p, &q));
                    ichk(ctx, "CheckedMul for BigInt", x, Some(ai.mul(&bi)));
                    let x = call(ctx, || CheckedDiv::checked_div(&p, &q));
                    ichk(ctx, "CheckedDiv for BigInt", x, if nz { Some(ai.divrem_trunc(&bi).0) } else { None });
                    let x = call(ctx, || p.checked_div_euclid(&q));
                    ichk(ctx, "BigInt checked_div_euclid", x, if nz { Some(ai.divrem_euclid(&bi).0) } else { None });
                    let x = call(ctx, || p.checked_rem_euclid(&q));
                    ichk(ctx, "BigInt checked_rem_euclid", x, if nz { Some(ai.divrem_euclid(&bi).1) } else { None });
                    let x = call(ctx, || CheckedEuclid::checked_div_rem_euclid(&p, &q).map(|(a, _)| a));
                    ichk(ctx, "BigInt checked_div_rem_euclid.0", x, if nz { Some(ai.divrem_euclid(&bi).0) } else { None });
                    let x = call(ctx, || CheckedEuclid::checked_div_rem_euclid(&p, &q).map(|(_, b)| b));
                    ichk(ctx, "BigInt checked_div_rem_euclid.1", x, if nz { Some(ai.divrem_euclid(&bi).1) } else { None });
                }
            }
            ctx.sample(|| format!("a=+-{} against +-Dense(S5,2): every checked_* method of both types", an.to_hex()));
        }
    }
    // ---- F1c: remaining documented failures not enumerated by another property's space
    if ctx.space("F1-misc") && ctx.mine(0) {
        let pool = alpha::pool_mags();
        for d in pool.iter().take(12) {
            let n = Nat::from_digits(d);
            let u = bu_nat(&n);
            let i = -BigInt::from(u.clone());
            ctx.case();
            ctx.nontrivial(1);
            let args = || vec![format!("x={}", n.to_hex())];
            let x = call(ctx, || u.is_multiple_of(&BigUint::ZERO));
            ctx.compared(1);
            if x != Out::Ret(n.is_zero()) {
                ctx.viol(format!("is_multiple_of(0) x={}", n.to_hex()), "only zero is a multiple of zero (no panic)", args(), format!("{}", n.is_zero()), format!("{:?}", x));
            }
            let x = call(ctx, || u.next_multiple_of(&BigUint::ZERO));
            expect_panic(ctx, "BigUint next_multiple_of(0)", &args, x);
            let x = call(ctx, || i.prev_multiple_of(&BigInt::ZERO));
            expect_panic(ctx, "BigInt prev_multiple_of(0)", &args, x);
            if !n.is_zero() {
                let x = call(ctx, || i.sqrt());
                expect_panic(ctx, "BigInt sqrt of a negative", &args, x);
                for n in [2u32, 4, 6, 64, 100, 1000, u32::MAX - 1] {
                    let x = call(ctx, || i.nth_root(n));
                    expect_panic(ctx, "BigInt nth_root(even n) of a negative", &args, x);
                    let x = call(ctx, || Roots::nth_root(&i, n));
                    expect_panic(ctx, "Roots::nth_root(even n) of a negative BigInt", &args, x);
                }
            }
            let x = call(ctx, || i.nth_root(0));
            expect_panic(ctx, "BigInt nth_root(0)", &args, x);
            let x = call(ctx, || u.modpow(&bu(&[3]), &BigUint::ZERO));
            expect_panic(ctx, "BigUint modpow zero modulus", &args, x);
            let x = call(ctx, || u.modinv(&BigUint::ZERO));
            expect_panic(ctx, "BigUint modinv zero modulus", &args, x);
            let x = call(ctx, || i.modpow(&BigInt::from(-1), &BigInt::from(7)));
            expect_panic(ctx, "BigInt modpow negative exponent", &args, x);
            let x = call(ctx, || &i << -1i32);
            expect_panic(ctx, "BigInt << negative", &args, x);
            let x = call(ctx, || &u >> -1i64);
            expect_panic(ctx, "BigUint >> negative", &args, x);
            // every signed shift type x negative amounts incl. multiples of the digit width and the type minimum
            macro_rules! neg_shifts {
                ($T:ty, $tn:expr) => {{
                    for k in [-1i128, -2, -63, -64, -65, -127, -128, -192, <$T>::MIN as i128] {
                        if k >= <$T>::MIN as i128 {
                            let t = k as $T;
                            let sargs = || vec![format!("x={}", n.to_hex()), format!("k={} ({})", k, $tn)];
                            let x = call(ctx, || &u >> t);
                            expect_panic(ctx, concat!("BigUint >> negative ", $tn), &sargs, x);
                            let x = call(ctx, || &u << t);
                            expect_panic(ctx, concat!("BigUint << negative ", $tn), &sargs, x);
                            let x = call(ctx, || &i >> t);
                            expect_panic(ctx, concat!("BigInt >> negative ", $tn), &sargs, x);
                            let x = call(ctx, || &i << t);
                            expect_panic(ctx, concat!("BigInt << negative ", $tn), &sargs, x);
                            let x = call(ctx, || {
                                let mut y = u.clone();
                                y >>= t;
                                y
                            });
                            expect_panic(ctx, concat!("BigUint >>= negative ", $tn), &sargs, x);
                            let x = call(ctx, || {
                                let mut y = i.clone();
                                y <<= t;
                                y
                            });
                            expect_panic(ctx, concat!("BigInt <<= negative ", $tn), &sargs, x);
                        }
                    }
                }};
            }
            neg_shifts!(i8, "i8");
            neg_shifts!(i16, "i16");
            neg_shifts!(i32, "i32");
            neg_shifts!(i64, "i64");
            neg_shifts!(i128, "i128");
            neg_shifts!(isize, "isize");
        }
        ctx.sample(|| "zero modulus, negative exponent, negative shift, even root of a negative, zeroth root, multiple-of zero".to_string());
    }
}

fn main() {
    runner::main(SPEC, body)
}
