//! C20 -- multiplication cost grows sub-quadratically with operand size.
use nbmc::*;
use num_bigint::verif_probe::MAC_WORK;
use std::sync::atomic::Ordering;

const SPEC: Spec = Spec {
    id: "C20",
    engine: "E-prod (exhaustive enumeration of the property's finite quantifier -- operand lengths -- with a deterministic work counter inside the real multiply-accumulate row routine; no timing)",
    rule: "W(lx,ly) = increase of the MAC_WORK hook (sum of row lengths passed to the multiply-accumulate row routine = elementary digit multiplications) around one &a * &b of fixed dense operands; checked: W(2n,2n) <= 3.5*W(n,n) for every enumerated n >= 256, W(4096,4096) < 4096^2/4, W(lx,ly) <= lx*ly for every unbalanced shape, and the product itself against refint for operands up to 1024 digits; the same three bounds for each of 17 multiplication forms (value/reference operands, *=, checked_mul, BigInt sign pairs, squares, Product, and left/right operands whose buffer has spare capacity for the whole product) at n in {64,256,...,4096}; non-trivial = shorter operand > 32 digits (beyond the schoolbook regime)",
    assumptions: &[
        "cost = digit multiplications in the row routine (the property's definition); additions, subtractions and allocations of the sub-quadratic algorithms are not counted",
        "operands are fixed dense LCG digit strings without zero digits, so the count is deterministic",
        "thresholds carry margin over the measured values on the pinned tree (max doubling ratio 3.082, W(4096)/4096^2 = 0.074, unbalanced max ratio 1.0000)",
    ],
    bounds_quick: "balanced n in {256,512,...,16384} and every n in 33..=4096 (doubling ratio W(2n)/W(n)); unbalanced bank n x {2n-1,2n,64n} for n in {33,40,100,256,300,1000} and every lx <= 300 x 7 length relations; 17 multiplication forms x n in {64,256,512,1024,2048,4096} and x 8 unbalanced shapes (both operand orders); 8 operand value shapes (interior zero digits, zero blocks, all-ones, sparse) x n in {1024,2048,4096} x both operand orders under the schoolbook and quarter bounds",
    bounds_thorough: "balanced every n in 33..=8192 and 16384; unbalanced bank and every lx <= 700 x 7 length relations; 17 forms x 6 sizes",
    hang_secs: 120,
    probes: Some(probes),
    max_workers: 16,
};

fn dense(l: usize, salt: u64) -> Vec<u64> {
    let mut s = 0x9E3779B97F4A7C15u64 ^ salt.wrapping_mul(0xD1B54A32D192ED03) ^ (l as u64);
    let mut v: Vec<u64> = (0..l).map(|_| alpha::lcg(&mut s) | 1).collect();
    v[l - 1] |= alpha::H;
    v
}

/// work counter increase for one multiplication; also returns the product
fn work(a: &BigUint, b: &BigUint) -> (u64, BigUint) {
    let before = MAC_WORK.load(Ordering::Relaxed);
    let p = a * b;
    (MAC_WORK.load(Ordering::Relaxed) - before, p)
}

fn measure(ctx: &mut Ctx, lx: usize, ly: usize, check_product: bool) -> u64 {
    let ad = dense(lx, 1);
    let bd = dense(ly, 2);
    let (a, b) = (bu(&ad), bu(&bd));
    ctx.calls(1);
    let r = guard(|| work(&a, &b));
    match r {
        Ok((w, p)) => {
            if check_product {
                let want = Nat::from_digits(&ad).mul(&Nat::from_digits(&bd));
                ctx.compared(1);
                if nat_of(&p) != want {
                    ctx.viol(format!("product lx={} ly={}", lx, ly), "product of the dense operands differs from refint", vec![], "exact product".into(), "different".into());
                }
            }
            w
        }
        Err(m) => {
            ctx.viol(format!("panic lx={} ly={}", lx, ly), "multiplication panicked", vec![], "product".into(), m);
            0
        }
    }
}

fn body(ctx: &mut Ctx) {
    let tier = ctx.tier;
    // ---- balanced: doubling ratio
    if ctx.space("BAL") {
        let mut ns: Vec<usize> = match tier {
            Tier::Quick => (33..=4096).collect(),
            Tier::Thorough => (33..=8192).collect(),
        };
        for p in [256usize, 512, 1024, 2048, 4096, 8192] {
            if !ns.contains(&p) {
                ns.push(p);
            }
        }
        ns.sort();
        for &n in &ns {
            if !ctx.mine(n as u64) {
                continue;
            }
            ctx.case();
            if n > 32 {
                ctx.nontrivial(1);
            }
            let w1 = measure(ctx, n, n, n <= 1024);
            let w2 = measure(ctx, 2 * n, 2 * n, 2 * n <= 1024);
            ctx.outcome(w1);
            ctx.compared(1);
            if n >= 256 && (w2 as f64) > 3.5 * (w1 as f64) {
                ctx.viol(format!("doubling n={}", n), "doubling the operand length multiplies the digit-multiplication count by more than 3.5 (schoolbook would be 4)", vec![format!("n={}", n)], format!("W(2n) <= 3.5*W(n) = {:.0}", 3.5 * w1 as f64), format!("W(n)={} W(2n)={} ratio={:.3}", w1, w2, w2 as f64 / w1 as f64));
            }
            // schoolbook bound also for balanced operands
            ctx.compared(1);
            if w1 > (n * n) as u64 {
                ctx.viol(format!("balanced-schoolbook n={}", n), "more digit multiplications than the schoolbook method", vec![], format!("<= {}", n * n), format!("{}", w1));
            }
            if n == 4096 {
                ctx.compared(1);
                if w1 >= (4096u64 * 4096) / 4 {
                    ctx.viol("quarter n=4096".into(), "the 4096 x 4096 product needs a quarter or more of the schoolbook digit multiplications", vec![], format!("< {}", 4096u64 * 4096 / 4), format!("{}", w1));
                }
                ctx.sample(|| format!("n=4096: W={} = {:.4} * n^2; W(8192)={} ratio {:.3}", w1, w1 as f64 / (4096.0 * 4096.0), w2, w2 as f64 / w1 as f64));
            }
            if n == 256 || n == 1024 {
                ctx.sample(|| format!("n={}: W(n)={} W(2n)={} ratio {:.3}", n, w1, w2, w2 as f64 / w1 as f64));
            }
            ctx.count_max("max.doubling_ratio_x1000", if n >= 256 && w1 > 0 { (w2 as f64 / w1 as f64 * 1000.0) as u64 } else { 0 });
        }
    }
    // ---- unbalanced: never above the schoolbook count
    if ctx.space("UNB") {
        let mut shapes: Vec<(usize, usize)> = Vec::new();
        for n in [33usize, 40, 100, 256, 300, 1000] {
            shapes.push((n, 2 * n - 1));
            shapes.push((n, 2 * n));
            shapes.push((n, 64 * n));
        }
        let lmax = tier.pick(300usize, 700usize);
        for lx in 1..=lmax {
            for ly in [lx, lx + 1, 2 * lx - 1, 2 * lx, 2 * lx + 1, 3 * lx, 64 * lx] {
                if ly >= lx && ly >= 1 {
                    shapes.push((lx, ly));
                }
            }
        }
        shapes.sort();
        shapes.dedup();
        for (i, &(lx, ly)) in shapes.iter().enumerate() {
            if !ctx.mine(i as u64) {
                continue;
            }
            ctx.case();
            if lx > 32 {
                ctx.nontrivial(1);
            }
            let w = measure(ctx, lx, ly, lx * ly <= 300_000);
            ctx.outcome(w ^ ((lx as u64) << 40));
            ctx.compared(1);
            if w > (lx * ly) as u64 {
                ctx.viol(format!("unbalanced lx={} ly={}", lx, ly), "unbalanced product costs more digit multiplications than the schoolbook method", vec![], format!("<= {}", lx * ly), format!("{}", w));
            }
            ctx.count_max("max.unbalanced_ratio_x10000", (w as f64 / (lx * ly) as f64 * 10000.0) as u64);
            if lx == 100 && ly == 6400 {
                ctx.sample(|| format!("lx=100 ly=6400: W={} = {:.4} * lx*ly", w, w as f64 / 640000.0));
            }
        }
    }
    // ---- every multiplication form, fresh operands and operands with spare buffer capacity
    if ctx.space("FORMS") {
        type F = (&'static str, fn(&BigUint, &BigUint) -> BigUint);
        static SLACK_OK: std::sync::atomic::AtomicU64 = std::sync::atomic::AtomicU64::new(0);
        fn slack(a: &BigUint, b: &BigUint) -> BigUint {
            // same value on a buffer with room for the whole product and more
            let need = ((a.bits() + b.bits()) / 64 + 4) as usize;
            let (x, cap) = with_slack(a, need);
            if cap >= need {
                SLACK_OK.fetch_add(1, Ordering::Relaxed);
            }
            x
        }
        let forms: Vec<F> = vec![
            ("&a*&b", |a, b| a * b),
            ("a*&b", |a, b| a.clone() * b),
            ("&a*b", |a, b| a * b.clone()),
            ("a*b", |a, b| a.clone() * b.clone()),
            ("a*=&b", |a, b| {
                let mut x = a.clone();
                x *= b;
                x
            }),
            ("a*=b", |a, b| {
                let mut x = a.clone();
                x *= b.clone();
                x
            }),
            ("slack a*=&b", |a, b| {
                let mut x = slack(a, b);
                x *= b;
                x
            }),
            ("slack a*=b", |a, b| {
                let mut x = slack(a, b);
                x *= b.clone();
                x
            }),
            ("slack a*&b", |a, b| slack(a, b) * b),
            ("&a*slack b", |a, b| a * slack(b, a)),
            ("checked_mul", |a, b| num_traits::CheckedMul::checked_mul(a, b).unwrap()),
            ("BigInt &-a*&b", |a, b| (&-BigInt::from(a.clone()) * &BigInt::from(b.clone())).magnitude().clone()),
            ("BigInt -a*=&-b", |a, b| {
                let mut x = -BigInt::from(a.clone());
                x *= &-BigInt::from(b.clone());
                x.magnitude().clone()
            }),
            ("BigInt slack a*=b", |a, b| {
                let mut x = BigInt::from(slack(a, b));
                x *= BigInt::from(b.clone());
                x.magnitude().clone()
            }),
            ("square &a*&a", |a, _| a * a),
            ("square a*=&a'", |a, _| {
                let mut x = a.clone();
                let y = a.clone();
                x *= &y;
                x
            }),
            ("Product [a,b]", |a, b| vec![a.clone(), b.clone()].into_iter().product()),
        ];
        let sizes: Vec<usize> = vec![64, 256, 512, 1024, 2048, 4096];
        // unbalanced shapes through every form (both operand orders): never above the schoolbook count
        let shapes: Vec<(usize, usize)> = vec![(33, 2112), (40, 2560), (64, 4096), (100, 6400), (128, 8192), (33, 20000), (300, 3000), (1000, 2001)];
        for (fi, (name, f)) in forms.iter().enumerate() {
            if name.starts_with("square") || !ctx.mine((1 << 20) + fi as u64) {
                continue;
            }
            for (si, &(lx, ly)) in shapes.iter().enumerate() {
                for swap in [false, true] {
                    ctx.case();
                    ctx.nontrivial(1);
                    ctx.inner((si * 2 + swap as usize) as u64);
                    let (ad, bd) = if swap { (dense(ly, 2), dense(lx, 1)) } else { (dense(lx, 1), dense(ly, 2)) };
                    let (a, b) = (bu(&ad), bu(&bd));
                    ctx.calls(1);
                    let before = MAC_WORK.load(Ordering::Relaxed);
                    let r = guard(|| f(&a, &b));
                    let w = MAC_WORK.load(Ordering::Relaxed) - before;
                    match r {
                        Ok(p) => {
                            if lx * ly <= 300_000 {
                                ctx.compared(1);
                                if nat_of(&p) != Nat::from_digits(&ad).mul(&Nat::from_digits(&bd)) {
                                    ctx.viol(format!("form-unbalanced-product {} {}x{}", name, ad.len(), bd.len()), "product differs from refint", vec![], "exact product".into(), "different".into());
                                }
                            }
                        }
                        Err(m) => ctx.viol(format!("form-unbalanced-panic {} {}x{}", name, ad.len(), bd.len()), "multiplication panicked", vec![], "product".into(), m),
                    }
                    ctx.outcome(w ^ ((fi as u64) << 48) ^ ((si as u64) << 40));
                    ctx.compared(1);
                    if w > (lx * ly) as u64 {
                        ctx.viol(format!("form-unbalanced {} {}x{}", name, ad.len(), bd.len()), "unbalanced product costs more digit multiplications than the schoolbook method in this multiplication form", vec![format!("form={}", name)], format!("<= {}", lx * ly), format!("{}", w));
                    }
                }
            }
        }
        for (fi, (name, f)) in forms.iter().enumerate() {
            if !ctx.mine(fi as u64) {
                continue;
            }
            let mut prev: Option<(usize, u64)> = None;
            for &n in &sizes {
                ctx.case();
                ctx.nontrivial(1);
                ctx.inner(n as u64);
                let (ad, bd) = (dense(n, 1), dense(n, 2));
                let (a, b) = (bu(&ad), bu(&bd));
                ctx.calls(1);
                let before = MAC_WORK.load(Ordering::Relaxed);
                let r = guard(|| f(&a, &b));
                let w = MAC_WORK.load(Ordering::Relaxed) - before;
                match r {
                    Ok(p) => {
                        if n <= 512 {
                            let want = if name.starts_with("square") { Nat::from_digits(&ad).mul(&Nat::from_digits(&ad)) } else { Nat::from_digits(&ad).mul(&Nat::from_digits(&bd)) };
                            ctx.compared(1);
                            if nat_of(&p) != want {
                                ctx.viol(format!("form-product {} n={}", name, n), "product differs from refint", vec![], "exact product".into(), "different".into());
                            }
                        }
                    }
                    Err(m) => ctx.viol(format!("form-panic {} n={}", name, n), "multiplication panicked", vec![], "product".into(), m),
                }
                ctx.outcome(w ^ ((fi as u64) << 48));
                ctx.compared(2);
                if w > (n * n) as u64 {
                    ctx.viol(format!("form-schoolbook {} n={}", name, n), "more digit multiplications than the schoolbook method", vec![], format!("<= {}", n * n), format!("{}", w));
                }
                if let Some((pn, pw)) = prev {
                    if pn >= 256 && n == 2 * pn && (w as f64) > 3.5 * (pw as f64) {
                        ctx.viol(format!("form-doubling {} n={}", name, pn), "doubling the operand length multiplies the digit-multiplication count by more than 3.5 in this multiplication form", vec![format!("form={}", name)], format!("W(2n) <= 3.5*W(n) = {:.0}", 3.5 * pw as f64), format!("W({})={} W({})={} ratio={:.3}", pn, pw, n, w, w as f64 / pw as f64));
                    }
                }
                if n == 4096 && w >= (4096u64 * 4096) / 4 {
                    ctx.viol(format!("form-quarter {} n=4096", name), "the 4096 x 4096 product needs a quarter or more of the schoolbook digit multiplications in this multiplication form", vec![format!("form={}", name)], format!("< {}", 4096u64 * 4096 / 4), format!("{}", w));
                }
                prev = Some((n, w));
            }
            ctx.sample(|| format!("form {}: W(n) for n in {:?}; last W={}", name, sizes, prev.map_or(0, |p| p.1)));
            let ok = SLACK_OK.swap(0, Ordering::Relaxed);
            if ok > 0 {
                ctx.count("operands_with_capacity_for_the_whole_product", ok);
            }
        }
    }
    // ---- operand values: the bounds hold for every operand value, not only for dense digits -- operands with
    // interior zero digits, zero blocks, all-ones digits and low / high zero runs
    if ctx.space("VAL") {
        fn shaped(l: usize, shape: usize, salt: u64) -> Vec<u64> {
            let mut v = dense(l, salt);
            match shape {
                0 => {
                    for (i, d) in v.iter_mut().enumerate() {
                        if i % 16 == 15 && i + 1 < l {
                            *d = 0;
                        }
                    }
                }
                1 => {
                    for (i, d) in v.iter_mut().enumerate() {
                        if i % 2 == 1 && i + 1 < l {
                            *d = 0;
                        }
                    }
                }
                2 => v[l / 2] = 0,
                3 => {
                    for d in v.iter_mut().skip(l / 4).take(l / 2) {
                        *d = 0;
                    }
                }
                4 => v.iter_mut().for_each(|d| *d = u64::MAX),
                5 => {
                    for d in v.iter_mut().take(l / 3) {
                        *d = 0;
                    }
                }
                6 => {
                    for (i, d) in v.iter_mut().enumerate() {
                        if i % 64 != 0 && i + 1 < l {
                            *d = 0; // sparse: one non-zero digit in 64
                        }
                    }
                }
                _ => {
                    for (i, d) in v.iter_mut().enumerate() {
                        *d = if i % 3 == 0 { 1 } else { u64::MAX };
                    }
                }
            }
            v
        }
        const NAMES: [&str; 8] = ["zero every 16th digit", "zero every 2nd digit", "one zero digit in the middle", "zero block in the middle half", "all-ones digits", "low third zero", "one non-zero digit in 64", "1 / all-ones mix"];
        let sizes = [1024usize, 2048, 4096];
        let mut o = 0u64;
        for shape in 0..8usize {
            for both in [false, true] {
                let take = ctx.mine(o);
                o += 1;
                if !take {
                    continue;
                }
                let mut prev: Option<(usize, u64)> = None;
                for &n in &sizes {
                    ctx.case();
                    ctx.nontrivial(1);
                    ctx.inner(n as u64);
                    let ad = shaped(n, shape, 1);
                    let bd = if both { shaped(n, shape, 2) } else { dense(n, 2) };
                    let (a, b) = (bu(&ad), bu(&bd));
                    ctx.calls(2);
                    let before = MAC_WORK.load(Ordering::Relaxed);
                    let r = guard(|| (&a * &b, &b * &a));
                    let w = (MAC_WORK.load(Ordering::Relaxed) - before + 1) / 2; // mean of the two operand orders
                    let before = MAC_WORK.load(Ordering::Relaxed);
                    let r1 = guard(|| &b * &a);
                    let w_ba = MAC_WORK.load(Ordering::Relaxed) - before;
                    let w_max = w_ba.max(2 * w - w_ba.min(2 * w));
                    if let (Ok((p, q)), Ok(q2)) = (&r, &r1) {
                        ctx.compared(1);
                        if p != q || q != q2 {
                            ctx.viol(format!("value-shape product {} n={}", NAMES[shape], n), "a*b differs from b*a", vec![], "equal".into(), "different".into());
                        }
                        if n == 1024 {
                            ctx.compared(1);
                            if nat_of(p) != Nat::from_digits(&ad).mul(&Nat::from_digits(&bd)) {
                                ctx.viol(format!("value-shape product {} n={} vs refint", NAMES[shape], n), "product differs from refint", vec![], "exact product".into(), "different".into());
                            }
                        }
                    } else {
                        ctx.viol(format!("value-shape panic {} n={}", NAMES[shape], n), "multiplication panicked", vec![], "product".into(), "panic".into());
                    }
                    ctx.outcome(w_max ^ ((shape as u64) << 48) ^ ((both as u64) << 47));
                    ctx.compared(2);
                    if w_max > (n * n) as u64 {
                        ctx.viol(format!("value-shape schoolbook {} both={} n={}", NAMES[shape], both, n), "more digit multiplications than the schoolbook method for operands of this value shape", vec![], format!("<= {}", n * n), format!("{}", w_max));
                    }
                    if let Some((pn, pw)) = prev {
                        if n == 2 * pn && pw > 0 {
                            ctx.count_max("max.value_shape_doubling_ratio_x1000", (w_max as f64 / pw as f64 * 1000.0) as u64);
                            ctx.count_max("max.value_shape_share_of_schoolbook_x10000", (w_max as f64 / (n * n) as f64 * 10000.0) as u64);
                        }
                        // the doubling ratio of *shaped* operands is recorded, not bounded: with little absolute work
                        // (zeros make products cheaper) it moves with every threshold between equivalent algorithms --
                        // 3.47 on the pinned tree, 3.84 with the schoolbook threshold at 24, 3.98 with a squaring
                        // kernel -- while the property's ratio clause speaks of large operands in general (BAL, FORMS)
                    }
                    if n == 4096 && w_max >= (4096u64 * 4096) / 4 {
                        ctx.viol(format!("value-shape quarter {} both={}", NAMES[shape], both), "the 4096 x 4096 product needs a quarter or more of the schoolbook digit multiplications for operands of this value shape", vec![NAMES[shape].to_string()], format!("< {}", 4096u64 * 4096 / 4), format!("{}", w_max));
                    }
                    prev = Some((n, w_max));
                }
                ctx.sample(|| format!("{} ({}): W(n) for n in {:?}, both operand orders; last W={}", NAMES[shape], if both { "both operands" } else { "against a dense operand" }, sizes, prev.map_or(0, |p| p.1)));
            }
        }
    }
    // ---- the property's own list: 8192 -> 16384
    if ctx.space("BIG") && ctx.mine(0) {
        ctx.case();
        ctx.nontrivial(1);
        let w1 = measure(ctx, 8192, 8192, false);
        let w2 = measure(ctx, 16384, 16384, false);
        ctx.compared(1);
        if (w2 as f64) > 3.5 * (w1 as f64) {
            ctx.viol("doubling n=8192".into(), "doubling 8192 -> 16384 multiplies the work by more than 3.5", vec![], format!("<= {:.0}", 3.5 * w1 as f64), format!("{}", w2));
        }
        ctx.sample(|| format!("n=8192: W={} ; n=16384: W={} ratio {:.3}", w1, w2, w2 as f64 / w1 as f64));
    }
}

fn main() {
    runner::main(SPEC, body)
}
