//! C20 -- multiplication cost grows sub-quadratically with operand size.
use nbmc::*;
use num_bigint::verif_probe::MAC_WORK;
use std::sync::atomic::Ordering;

const SPEC: Spec = Spec {
    id: "C20",
    engine: "E-prod (exhaustive enumeration of the property's finite quantifier -- operand lengths -- with a deterministic work counter inside the real multiply-accumulate row routine; no timing)",
    rule: "W(lx,ly) = increase of the MAC_WORK hook (sum of row lengths passed to the multiply-accumulate row routine = elementary digit multiplications) around one &a * &b of fixed dense operands; checked: W(2n,2n) <= 3.5*W(n,n) for every enumerated n >= 256, W(4096,4096) < 4096^2/4, W(lx,ly) <= lx*ly for every unbalanced shape, and the product itself against refint for operands up to 1024 digits; non-trivial = shorter operand > 32 digits (beyond the schoolbook regime)",
    assumptions: &[
        "cost = digit multiplications in the row routine (the property's definition); additions, subtractions and allocations of the sub-quadratic algorithms are not counted",
        "operands are fixed dense LCG digit strings without zero digits, so the count is deterministic",
        "thresholds carry margin over the measured values on the pinned tree (max doubling ratio 3.082, W(4096)/4096^2 = 0.074, unbalanced max ratio 1.0000)",
    ],
    bounds_quick: "balanced n in {256,512,...,16384} and every n in 33..=4096 (doubling ratio W(2n)/W(n)); unbalanced bank n x {2n-1,2n,64n} for n in {33,40,100,256,300,1000} and every lx <= 300 x 7 length relations",
    bounds_thorough: "balanced every n in 33..=8192 and 16384; unbalanced bank and every lx <= 700 x 7 length relations",
    hang_secs: 120,
    probes: Some(probes),
    max_workers: 16,
};

fn dense(l: usize, salt: u64) -> Vec<u64> {
    let mut s = 0x9E3779B97F4A7C15u64 ^ salt.wrapping_mul(0xD1B54A32D192ED03) ^ (l as u64);
    let mut v: Vec<u64> = (0..l).map(|_| alpha::lcg(&mut s) | 1).collect();
    v[l - 1] |= alpha::H;
    v
}

/// work counter increase for one multiplication; also returns the product
fn work(a: &BigUint, b: &BigUint) -> (u64, BigUint) {
    let before = MAC_WORK.load(Ordering::Relaxed);
    let p = a * b;
    (MAC_WORK.load(Ordering::Relaxed) - before, p)
}

fn measure(ctx: &mut Ctx, lx: usize, ly: usize, check_product: bool) -> u64 {
    let ad = dense(lx, 1);
    let bd = dense(ly, 2);
    let (a, b) = (bu(&ad), bu(&bd));
    ctx.calls(1);
    let r = guard(|| work(&a, &b));
    match r {
        Ok((w, p)) => {
            if check_product {
                let want = Nat::from_digits(&ad).mul(&Nat::from_digits(&bd));
                ctx.compared(1);
                if nat_of(&p) != want {
                    ctx.viol(format!("product lx={} ly={}", lx, ly), "product of the dense operands differs from refint", vec![], "exact product".into(), "different".into());
                }
            }
            w
        }
        Err(m) => {
            ctx.viol(format!("panic lx={} ly={}", lx, ly), "multiplication panicked", vec![], "product".into(), m);
            0
        }
    }
}

fn body(ctx: &mut Ctx) {
    let tier = ctx.tier;
    // ---- balanced: doubling ratio
    if ctx.space("BAL") {
        let mut ns: Vec<usize> = match tier {
            Tier::Quick => (33..=4096).collect(),
            Tier::Thorough => (33..=8192).collect(),
        };
        for p in [256usize, 512, 1024, 2048, 4096, 8192] {
            if !ns.contains(&p) {
                ns.push(p);
            }
        }
        ns.sort();
        for &n in &ns {
            if !ctx.mine(n as u64) {
                continue;
            }
            ctx.case();
            if n > 32 {
                ctx.nontrivial(1);
            }
            let w1 = measure(ctx, n, n, n <= 1024);
            let w2 = measure(ctx, 2 * n, 2 * n, 2 * n <= 1024);
            ctx.outcome(w1);
            ctx.compared(1);
            if n >= 256 && (w2 as f64) > 3.5 * (w1 as f64) {
                ctx.viol(format!("doubling n={}", n), "doubling the operand length multiplies the digit-multiplication count by more than 3.5 (schoolbook would be 4)", vec![format!("n={}", n)], format!("W(2n) <= 3.5*W(n) = {:.0}", 3.5 * w1 as f64), format!("W(n)={} W(2n)={} ratio={:.3}", w1, w2, w2 as f64 / w1 as f64));
            }
            // schoolbook bound also for balanced operands
            ctx.compared(1);
            if w1 > (n * n) as u64 {
                ctx.viol(format!("balanced-schoolbook n={}", n), "more digit multiplications than the schoolbook method", vec![], format!("<= {}", n * n), format!("{}", w1));
            }
            if n == 4096 {
                ctx.compared(1);
                if w1 >= (4096u64 * 4096) / 4 {
                    ctx.viol("quarter n=4096".into(), "the 4096 x 4096 product needs a quarter or more of the schoolbook digit multiplications", vec![], format!("< {}", 4096u64 * 4096 / 4), format!("{}", w1));
                }
                ctx.sample(|| format!("n=4096: W={} = {:.4} * n^2; W(8192)={} ratio {:.3}", w1, w1 as f64 / (4096.0 * 4096.0), w2, w2 as f64 / w1 as f64));
            }
            if n == 256 || n == 1024 {
                ctx.sample(|| format!("n={}: W(n)={} W(2n)={} ratio {:.3}", n, w1, w2, w2 as f64 / w1 as f64));
            }
            ctx.count_max("max.doubling_ratio_x1000", if n >= 256 && w1 > 0 { (w2 as f64 / w1 as f64 * 1000.0) as u64 } else { 0 });
        }
    }
    // ---- unbalanced: never above the schoolbook count
    if ctx.space("UNB") {
        let mut shapes: Vec<(usize, usize)> = Vec::new();
        for n in [33usize, 40, 100, 256, 300, 1000] {
            shapes.push((n, 2 * n - 1));
            shapes.push((n, 2 * n));
            shapes.push((n, 64 * n));
        }
        let lmax = tier.pick(300usize, 700usize);
        for lx in 1..=lmax {
            for ly in [lx, lx + 1, 2 * lx - 1, 2 * lx, 2 * lx + 1, 3 * lx, 64 * lx] {
                if ly >= lx && ly >= 1 {
                    shapes.push((lx, ly));
                }
            }
        }
        shapes.sort();
        shapes.dedup();
        for (i, &(lx, ly)) in shapes.iter().enumerate() {
            if !ctx.mine(i as u64) {
                continue;
            }
            ctx.case();
            if lx > 32 {
                ctx.nontrivial(1);
            }
            let w = measure(ctx, lx, ly, lx * ly <= 300_000);
            ctx.outcome(w ^ ((lx as u64) << 40));
            ctx.compared(1);
            if w > (lx * ly) as u64 {
                ctx.viol(format!("unbalanced lx={} ly={}", lx, ly), "unbalanced product costs more digit multiplications than the schoolbook method", vec![], format!("<= {}", lx * ly), format!("{}", w));
            }
            ctx.count_max("max.unbalanced_ratio_x10000", (w as f64 / (lx * ly) as f64 * 10000.0) as u64);
            if lx == 100 && ly == 6400 {
                ctx.sample(|| format!("lx=100 ly=6400: W={} = {:.4} * lx*ly", w, w as f64 / 640000.0));
            }
        }
    }
    // ---- the property's own list: 8192 -> 16384
    if ctx.space("BIG") && ctx.mine(0) {
        ctx.case();
        ctx.nontrivial(1);
        let w1 = measure(ctx, 8192, 8192, false);
        let w2 = measure(ctx, 16384, 16384, false);
        ctx.compared(1);
        if (w2 as f64) > 3.5 * (w1 as f64) {
            ctx.viol("doubling n=8192".into(), "doubling 8192 -> 16384 multiplies the work by more than 3.5", vec![], format!("<= {:.0}", 3.5 * w1 as f64), format!("{}", w2));
        }
        ctx.sample(|| format!("n=8192: W={} ; n=16384: W={} ratio {:.3}", w1, w2, w2 as f64 / w1 as f64));
    }
}

fn main() {
    runner::main(SPEC, body)
}
