//! C08 -- primitive integer and float conversions are exact or correctly rounded.
use nbmc::*;
use num_bigint::{ToBigInt, ToBigUint};
use num_traits::{FromPrimitive, ToPrimitive};
use std::convert::TryFrom;

const SPEC: Spec = Spec {
    id: "C08",
    engine: "E-prod (exhaustive enumeration of boundary-value families x 12 primitive types, a structured mantissa/guard/sticky/shift family for big->float, and float bit patterns for float->big; real code vs refint)",
    rule: "integers: every value s*2^k+d (k<=130,|d|<=3, both signs) x each of the 12 target types through to_T, TryFrom<&Big>, TryFrom<Big> (error must return the original) and back through From/FromPrimitive/ToBigInt/ToBigUint/TryFrom; floats: every (mantissa pattern, guard bit, sticky pattern, shift) of the family through to_f64/to_f32 compared bit-for-bit with refint's explicit round-half-even, and every enumerated float bit pattern through from_f64/from_f32; non-trivial = value within 3 of a type boundary (integers), value wider than the float's precision (big->float), finite float with |x| >= 1 (float->big)",
    assumptions: &[
        "big->float inputs come from the structured family (16 mantissa patterns x guard x 14 sticky placements x every shift), not all integers",
        "from_f64 is enumerated over every exponent field x 96 mantissa patterns x sign, not all 2^64 patterns; from_f32 over all 2^32 patterns in the thorough tier",
        "refint rounding (top p bits + exact remainder) is trusted; cross-checked against Python float()/struct on a transcript slice",
    ],
    bounds_quick: "I1 1572 boundary values x 12 types x 2 big types; I2 every i8/u8/i16/u16 and boundary i32..i128/u32..u128 source value; F1 f64 family with shifts 1..=1100, f32 family with shifts 1..=300; F2 Dense(S5,3) to both floats; G1 from_f32 over every (sign, exponent, top 7 mantissa bits) x 1024 low-half patterns (2^26 bit patterns); G2 from_f64 every exponent x 96 mantissas x sign",
    bounds_thorough: "I1; I2; F1 f64 shifts 1..=2200, f32 shifts 1..=600; F2 Dense(S5,4); G1 from_f32 over all 2^32 bit patterns; G2",
    hang_secs: 120,
    probes: Some(probes),
    max_workers: 16,
};

fn boundary_values() -> Vec<Int> {
    let mut v = Vec::new();
    for k in 0..=130u64 {
        let p = Nat::one().shl(k);
        for d in -3i64..=3 {
            for neg in [false, true] {
                let base = Int::new(neg, p.clone());
                v.push(base.add(&Int::from_i64(d)));
            }
        }
    }
    v.push(Int::zero());
    v.sort_by(|a, b| a.cmp(b));
    v.dedup();
    v
}

// FromPrimitive method names cannot be derived from the type inside macro_rules without paste;
// a second macro with explicit names covers the primitive -> big direction.
macro_rules! from_source {
    ($ctx:expr, $t:expr, $T:ty, $from:ident, $tn:expr, signed: $signed:expr) => {{
        let ctx: &mut Ctx = $ctx;
        let t: $T = $t;
        ctx.case();
        ctx.nontrivial(1);
        let v = if $signed { Int::from_i128(t as i128) } else { Int::from_nat(Nat::from_u128(t as u128)) };
        let args = || vec![format!("t={}", t), format!("T={}", $tn)];
        let r = call(ctx, || BigInt::from(t));
        expect_int(ctx, concat!("BigInt::from(", $tn, ")"), &args, r, &v);
        let r = call(ctx, || <BigInt as FromPrimitive>::$from(t).expect("FromPrimitive for BigInt is total"));
        expect_int(ctx, concat!("BigInt::", stringify!($from)), &args, r, &v);
        let r = call(ctx, || t.to_bigint().expect("to_bigint is total"));
        expect_int(ctx, concat!($tn, "::to_bigint"), &args, r, &v);
        // BigUint side: Some iff non-negative
        let wantu = if v.neg { None } else { Some(v.mag.clone()) };
        ctx.compared(3);
        let r = call(ctx, || <BigUint as FromPrimitive>::$from(t).map(|x| nat_of(&x)));
        if r != Out::Ret(wantu.clone()) {
            ctx.viol(format!("BigUint::{} {}", stringify!($from), args().join(" ")), "FromPrimitive for BigUint wrong", args(), format!("{:?}", wantu.as_ref().map(|w| w.to_hex())), format!("{:?}", r));
        }
        let r = call(ctx, || t.to_biguint().map(|x| nat_of(&x)));
        if r != Out::Ret(wantu.clone()) {
            ctx.viol(format!("{}::to_biguint {}", $tn, args().join(" ")), "to_biguint wrong (negative must fail)", args(), format!("{:?}", wantu.as_ref().map(|w| w.to_hex())), format!("{:?}", r));
        }
        let r = call(ctx, || BigUint::try_from(t).ok().map(|x| nat_of(&x)));
        if r != Out::Ret(wantu.clone()) {
            ctx.viol(format!("BigUint::try_from({}) {}", $tn, args().join(" ")), "TryFrom<primitive> for BigUint wrong", args(), format!("{:?}", wantu.as_ref().map(|w| w.to_hex())), format!("{:?}", r));
        }
    }};
}

fn ints_to_prim(ctx: &mut Ctx) {
    if !ctx.space("I1") {
        return;
    }
    let vals = boundary_values();
    for (i, v) in vals.iter().enumerate() {
        if !ctx.mine(i as u64) {
            continue;
        }
        let x = bi_int(v);
        let u = if v.neg { None } else { Some(bu_nat(&v.mag)) };
        macro_rules! t {
            ($T:ty, $to:ident, $tn:expr) => {{
                // local copy of int_target without the FromPrimitive tail
                let ctx: &mut Ctx = ctx;
                ctx.case();
                let want: Option<$T> = match v.to_i128() {
                    Some(i) => <$T>::try_from(i).ok(),
                    None => {
                        if !v.neg {
                            v.mag.to_u128().and_then(|m| <$T>::try_from(m).ok())
                        } else {
                            None
                        }
                    }
                };
                let near = {
                    let lo = Int::from_i128(<$T>::MIN as i128);
                    let hi = if (<$T>::MAX as u128) > i128::MAX as u128 { Int::from_nat(Nat::from_u128(<$T>::MAX as u128)) } else { Int::from_i128(<$T>::MAX as i128) };
                    v.sub(&lo).mag.to_u64().map_or(false, |d| d <= 3) || v.sub(&hi).mag.to_u64().map_or(false, |d| d <= 3)
                };
                if near {
                    ctx.nontrivial(1);
                }
                let args = || vec![format!("v={}", v.to_hex()), format!("T={}", $tn)];
                ctx.compared(3);
                let r = call(ctx, || x.$to());
                if r != Out::Ret(want) {
                    ctx.viol(format!("BigInt {} {}", stringify!($to), args().join(" ")), "to_T differs from the exact range test", args(), format!("{:?}", want), format!("{:?}", r));
                }
                let r = call(ctx, || <$T>::try_from(&x).ok());
                if r != Out::Ret(want) {
                    ctx.viol(format!("TryFrom<&BigInt> for {} {}", $tn, args().join(" ")), "TryFrom<&BigInt> differs from the exact range test", args(), format!("{:?}", want), format!("{:?}", r));
                }
                let r = call(ctx, || match <$T>::try_from(x.clone()) {
                    Ok(t) => (Some(t), None),
                    Err(e) => (None, Some(e.into_original())),
                });
                match r {
                    Out::Ret((got, orig)) => {
                        if got != want || (want.is_none() && orig.as_ref() != Some(&x)) || (want.is_some() && orig.is_some()) {
                            ctx.viol(format!("TryFrom<BigInt> for {} {}", $tn, args().join(" ")), "TryFrom<BigInt>: wrong result or the error does not carry the original value back", args(), format!("{:?}", want), format!("{:?} orig={:?}", got, orig));
                        }
                    }
                    Out::Panic(m) => ctx.viol(format!("TryFrom<BigInt> for {} {}", $tn, args().join(" ")), "panic", args(), format!("{:?}", want), m),
                }
                if let Some(u) = &u {
                    ctx.compared(3);
                    let r = call(ctx, || u.$to());
                    if r != Out::Ret(want) {
                        ctx.viol(format!("BigUint {} {}", stringify!($to), args().join(" ")), "to_T differs from the exact range test", args(), format!("{:?}", want), format!("{:?}", r));
                    }
                    let r = call(ctx, || <$T>::try_from(u).ok());
                    if r != Out::Ret(want) {
                        ctx.viol(format!("TryFrom<&BigUint> for {} {}", $tn, args().join(" ")), "TryFrom<&BigUint> differs from the exact range test", args(), format!("{:?}", want), format!("{:?}", r));
                    }
                    let r = call(ctx, || match <$T>::try_from(u.clone()) {
                        Ok(t) => (Some(t), None),
                        Err(e) => (None, Some(e.into_original())),
                    });
                    match r {
                        Out::Ret((got, orig)) => {
                            if got != want || (want.is_none() && orig.as_ref() != Some(u)) || (want.is_some() && orig.is_some()) {
                                ctx.viol(format!("TryFrom<BigUint> for {} {}", $tn, args().join(" ")), "TryFrom<BigUint>: wrong result or the error does not carry the original value back", args(), format!("{:?}", want), format!("{:?} orig={:?}", got, orig));
                            }
                        }
                        Out::Panic(m) => ctx.viol(format!("TryFrom<BigUint> for {} {}", $tn, args().join(" ")), "panic", args(), format!("{:?}", want), m),
                    }
                }
            }};
        }
        t!(i8, to_i8, "i8");
        t!(i16, to_i16, "i16");
        t!(i32, to_i32, "i32");
        t!(i64, to_i64, "i64");
        t!(i128, to_i128, "i128");
        t!(isize, to_isize, "isize");
        t!(u8, to_u8, "u8");
        t!(u16, to_u16, "u16");
        t!(u32, to_u32, "u32");
        t!(u64, to_u64, "u64");
        t!(u128, to_u128, "u128");
        t!(usize, to_usize, "usize");
        // to_biguint / to_bigint between the big types
        ctx.case();
        ctx.compared(2);
        let wantu = if v.neg { None } else { Some(v.mag.clone()) };
        let r = call(ctx, || ToBigUint::to_biguint(&x).map(|y| nat_of(&y)));
        ctx.compared(1);
        if r != Out::Ret(wantu.clone()) {
            ctx.viol(format!("ToBigUint::to_biguint(&BigInt) v={}", v.to_hex()), "trait form of to_biguint must succeed exactly for non-negative values", vec![], format!("{:?}", wantu), format!("{:?}", r));
        }
        let r = call(ctx, || x.to_biguint().map(|y| nat_of(&y)));
        if r != Out::Ret(wantu.clone()) {
            ctx.viol(format!("BigInt::to_biguint v={}", v.to_hex()), "to_biguint must succeed exactly for non-negative values", vec![], format!("{:?}", wantu), format!("{:?}", r));
        }
        let r = call(ctx, || BigUint::try_from(x.clone()).map(|y| nat_of(&y)).map_err(|e| int_of(&e.into_original())));
        let wantr = if v.neg { Err(v.clone()) } else { Ok(v.mag.clone()) };
        if r != Out::Ret(wantr.clone()) {
            ctx.viol(format!("BigUint::try_from(BigInt) v={}", v.to_hex()), "TryFrom<BigInt> for BigUint wrong / error must carry the original", vec![], format!("{:?}", wantr), format!("{:?}", r));
        }
        ctx.sample(|| format!("v={} -> each of 12 primitive types via to_T / TryFrom<&Big> / TryFrom<Big>", v.to_hex()));
    }
}

fn prims_to_big(ctx: &mut Ctx) {
    if !ctx.space("I2") {
        return;
    }
    // every 8/16-bit value
    for i in 0..=u16::MAX {
        if !ctx.mine(i as u64) {
            continue;
        }
        from_source!(ctx, i, u16, from_u16, "u16", signed: false);
        from_source!(ctx, i as i16, i16, from_i16, "i16", signed: true);
        if i <= 255 {
            from_source!(ctx, i as u8, u8, from_u8, "u8", signed: false);
            from_source!(ctx, i as u8 as i8, i8, from_i8, "i8", signed: true);
        }
        if i == 40000 {
            ctx.sample(|| "every u16/i16/u8/i8 value through From, FromPrimitive, ToBigInt, ToBigUint, TryFrom".to_string());
        }
    }
    // boundary values of wider types
    let bv = boundary_values();
    for (j, v) in bv.iter().enumerate() {
        if !ctx.mine(70000 + j as u64) {
            continue;
        }
        if let Some(i) = v.to_i128() {
            from_source!(ctx, i, i128, from_i128, "i128", signed: true);
            if let Ok(t) = i64::try_from(i) {
                from_source!(ctx, t, i64, from_i64, "i64", signed: true);
                from_source!(ctx, t as isize, isize, from_isize, "isize", signed: true);
            }
            if let Ok(t) = i32::try_from(i) {
                from_source!(ctx, t, i32, from_i32, "i32", signed: true);
            }
            if let Ok(t) = u64::try_from(i) {
                from_source!(ctx, t, u64, from_u64, "u64", signed: false);
                from_source!(ctx, t as usize, usize, from_usize, "usize", signed: false);
            }
            if let Ok(t) = u32::try_from(i) {
                from_source!(ctx, t, u32, from_u32, "u32", signed: false);
            }
        }
        if !v.neg {
            if let Some(t) = v.mag.to_u128() {
                from_source!(ctx, t, u128, from_u128, "u128", signed: false);
            }
        }
    }
    if ctx.mine(69999) {
        ctx.case();
        for b in [false, true] {
            let r = call(ctx, || BigUint::from(b));
            expect_nat(ctx, "BigUint::from(bool)", &|| vec![format!("{}", b)], r, &Nat::from_u64(b as u64));
            let r = call(ctx, || BigInt::from(b));
            expect_int(ctx, "BigInt::from(bool)", &|| vec![format!("{}", b)], r, &Int::from_i64(b as i64));
        }
    }
}

fn mantissas(p: u32) -> Vec<u64> {
    let top = 1u64 << (p - 1);
    let all = (1u64 << p) - 1;
    let alt = 0xAAAA_AAAA_AAAA_AAAAu64 & all | top;
    let alt2 = 0x5555_5555_5555_5555u64 & all | top;
    let mut v = vec![top, top + 1, top + 2, top + 3, all, all - 1, all - 2, alt, alt2, top | (1 << (p / 2)), top | ((1 << (p / 2)) - 1), all & !(1 << 1), all & !(1 << (p - 2)), top | 0xff, top | 0x100, top | 0x0f0f];
    v.sort();
    v.dedup();
    v
}

fn float_case(ctx: &mut Ctx, n: &Nat, p: u32) {
    ctx.case();
    if n.bits() > p as u64 {
        ctx.nontrivial(1);
    }
    let u = bu_nat(n);
    let pos = BigInt::from(u.clone());
    let neg = -pos.clone();
    let args = || vec![format!("n={}", n.to_hex())];
    if p == 53 {
        let want = refint::nat_to_f64_bits(n);
        ctx.tr(|| format!("f64 {} {:x}", n.to_hex(), want));
        ctx.outcome(want);
        ctx.compared(3);
        let r = call(ctx, || u.to_f64().map(|f| f.to_bits()));
        if r != Out::Ret(Some(want)) {
            ctx.viol(format!("BigUint::to_f64 n={}", n.to_hex()), "to_f64 is not the nearest float (ties-to-even) / infinity on overflow", args(), format!("{:016x}", want), format!("{:x?}", r));
        }
        let r = call(ctx, || pos.to_f64().map(|f| f.to_bits()));
        if r != Out::Ret(Some(want)) {
            ctx.viol(format!("BigInt::to_f64 n={}", n.to_hex()), "to_f64 is not the nearest float", args(), format!("{:016x}", want), format!("{:x?}", r));
        }
        let wn = if n.is_zero() { want } else { want | (1 << 63) };
        let r = call(ctx, || neg.to_f64().map(|f| f.to_bits()));
        if r != Out::Ret(Some(wn)) {
            ctx.viol(format!("BigInt::to_f64 n=-{}", n.to_hex()), "to_f64 of a negative value is not the negated nearest float", args(), format!("{:016x}", wn), format!("{:x?}", r));
        }
    } else {
        let want = refint::nat_to_f32_bits(n);
        ctx.tr(|| format!("f32 {} {:x}", n.to_hex(), want));
        ctx.outcome(want as u64 | 1 << 40);
        ctx.compared(3);
        let r = call(ctx, || u.to_f32().map(|f| f.to_bits()));
        if r != Out::Ret(Some(want)) {
            ctx.viol(format!("BigUint::to_f32 n={}", n.to_hex()), "to_f32 is not the nearest float (ties-to-even) / infinity on overflow", args(), format!("{:08x}", want), format!("{:x?}", r));
        }
        let r = call(ctx, || pos.to_f32().map(|f| f.to_bits()));
        if r != Out::Ret(Some(want)) {
            ctx.viol(format!("BigInt::to_f32 n={}", n.to_hex()), "to_f32 is not the nearest float", args(), format!("{:08x}", want), format!("{:x?}", r));
        }
        let wn = if n.is_zero() { want } else { want | (1 << 31) };
        let r = call(ctx, || neg.to_f32().map(|f| f.to_bits()));
        if r != Out::Ret(Some(wn)) {
            ctx.viol(format!("BigInt::to_f32 n=-{}", n.to_hex()), "to_f32 of a negative value is not the negated nearest float", args(), format!("{:08x}", wn), format!("{:x?}", r));
        }
    }
}

fn big_to_float(ctx: &mut Ctx) {
    let tier = ctx.tier;
    if ctx.space("F1") {
        for (p, shifts) in [(53u32, tier.pick((1..=1100u64).collect::<Vec<u64>>(), (1..=2200u64).collect())), (24u32, tier.pick((1..=300u64).collect::<Vec<u64>>(), (1..=600u64).collect()))] {
            let ms = mantissas(p);
            for &t in &shifts {
                if !ctx.mine(t * 2 + (p == 24) as u64) {
                    continue;
                }
                let mut lows: Vec<Nat> = vec![Nat::zero(), Nat::one().shl(t).sub(&Nat::one()).unwrap()];
                for j in [0u64, 1, t.wrapping_sub(1), t.wrapping_sub(2), t / 2, 40, 63, 64, 65, 104, 127, 128, 168, 191] {
                    if j < t {
                        lows.push(Nat::one().shl(j));
                    }
                }
                lows.sort_by(|a, b| a.cmp(b));
                lows.dedup();
                for &m in &ms {
                    for g in [0u64, 1] {
                        let hi = Nat::from_u64(m).shl(1).add(&Nat::from_u64(g)).shl(t);
                        for low in &lows {
                            float_case(ctx, &hi.add(low), p);
                        }
                    }
                }
                ctx.sample(|| format!("p={} shift t={}: 16 mantissa patterns x guard bit x {} sticky placements (0, 2^j for j in lower digits, 2^t-1)", p, t, lows.len()));
            }
        }
    }
    if ctx.space("F2") {
        let set = alpha::dense(&alpha::SIGMA5, tier.pick(3, 4));
        for (i, d) in set.iter().enumerate() {
            if !ctx.mine(i as u64) {
                continue;
            }
            let n = Nat::from_digits(d);
            float_case(ctx, &n, 53);
            float_case(ctx, &n, 24);
        }
        // values around the overflow thresholds
        if ctx.mine(1 << 40) {
            for (p, e) in [(53u32, 1024u64), (24, 128)] {
                for k in [e - 2, e - 1, e, e + 1, e + 63, e + 64, e + 65] {
                    let top = Nat::one().shl(k);
                    for d in [-2i64, -1, 0, 1] {
                        let n = Int::from_nat(top.clone()).add(&Int::from_i64(d)).mag;
                        float_case(ctx, &n, p);
                    }
                    // just below 2^e: mantissa all ones plus half
                    let allones = Nat::one().shl(e).sub(&Nat::one().shl(e - p as u64)).unwrap();
                    let half = Nat::one().shl(e - p as u64 - 1);
                    float_case(ctx, &allones, p);
                    float_case(ctx, &allones.add(&half), p);
                    float_case(ctx, &allones.add(&half).sub(&Nat::one()).unwrap(), p);
                }
            }
            ctx.sample(|| "values around 2^128 and 2^1024: rounding up into infinity".to_string());
        }
    }
}

fn float_to_big(ctx: &mut Ctx) {
    let tier = ctx.tier;
    if ctx.space("G1") {
        // f32: outer index = top 16 bits (sign, exponent, 7 mantissa bits)
        for hi in 0..=0xffffu32 {
            if !ctx.mine(hi as u64) {
                continue;
            }
            let lows: Box<dyn Iterator<Item = u32>> = match tier {
                Tier::Thorough => Box::new(0..=0xffffu32),
                Tier::Quick => Box::new((0..1024u32).map(|i| match i {
                    0 => 0,
                    1 => 0xffff,
                    2 => 0xaaaa,
                    3 => 0x5555,
                    k if k < 20 => 1 << (k - 4),
                    k if k < 36 => 0xffff ^ (1 << (k - 20)),
                    k => (k * 64 + (k * 37) % 64) & 0xffff,
                })),
            };
            for lo in lows {
                let bits = (hi << 16) | lo;
                let f = f32::from_bits(bits);
                ctx.case();
                let want = refint::float_bits_to_int(bits as u64, 24, 8);
                if f.is_finite() && f.abs() >= 1.0 {
                    ctx.nontrivial(1);
                }
                ctx.tr(|| format!("fromf32 {:x} {}", bits, want.as_ref().map_or("None".to_string(), |w| w.to_hex())));
                ctx.compared(2);
                let r = call(ctx, || BigInt::from_f32(f).map(|x| int_of(&x)));
                if r != Out::Ret(want.clone()) {
                    ctx.viol(format!("BigInt::from_f32 bits={:08x}", bits), "from_f32 is not the float truncated toward zero (None for NaN/inf)", vec![format!("{:e}", f)], format!("{:?}", want.as_ref().map(|w| w.to_hex())), format!("{:?}", r));
                }
                let wantu = match &want {
                    Some(w) if !w.neg => Some(w.mag.clone()),
                    _ => None,
                };
                let r = call(ctx, || BigUint::from_f32(f).map(|x| nat_of(&x)));
                if r != Out::Ret(wantu.clone()) {
                    ctx.viol(format!("BigUint::from_f32 bits={:08x}", bits), "from_f32 wrong (negative values below -1 and NaN/inf must be None)", vec![format!("{:e}", f)], format!("{:?}", wantu.as_ref().map(|w| w.to_hex())), format!("{:?}", r));
                }
                ctx.compared(2);
                let r = call(ctx, || ToBigUint::to_biguint(&f).map(|x| nat_of(&x)));
                if r != Out::Ret(wantu.clone()) {
                    ctx.viol(format!("f32::to_biguint bits={:08x}", bits), "ToBigUint for f32 is not the float truncated toward zero (None for NaN/inf and values <= -1)", vec![format!("{:e}", f)], format!("{:?}", wantu.as_ref().map(|w| w.to_hex())), format!("{:?}", r));
                }
                let r = call(ctx, || ToBigInt::to_bigint(&f).map(|x| int_of(&x)));
                if r != Out::Ret(want.clone()) {
                    ctx.viol(format!("f32::to_bigint bits={:08x}", bits), "ToBigInt for f32 is not the float truncated toward zero (None for NaN/inf)", vec![format!("{:e}", f)], format!("{:?}", want.as_ref().map(|w| w.to_hex())), format!("{:?}", r));
                }
                // round trip for integral finite values
                if let Some(w) = &want {
                    if f.fract() == 0.0 && (lo & 0x3ff) == 0 {
                        ctx.compared(1);
                        let back = call(ctx, || bi_int(w).to_f32().map(|g| g.to_bits()));
                        let wb = if w.is_zero() { 0 } else { bits };
                        if back != Out::Ret(Some(wb)) {
                            ctx.viol(format!("to_f32(from_f32) bits={:08x}", bits), "round trip of an integral float failed", vec![], format!("{:08x}", wb), format!("{:x?}", back));
                        }
                    }
                }
            }
            if hi == 0x4b00 {
                ctx.sample(|| format!("from_f32 for every bit pattern with top half {:04x} (2^23 region: last non-integral binade)", hi));
            }
        }
    }
    if ctx.space("B") && ctx.mine(0) {
        // From<bool>
        for b in [false, true] {
            ctx.case();
            ctx.nontrivial(1);
            let args = || vec![format!("b={}", b)];
            let r = call(ctx, || BigUint::from(b));
            expect_nat(ctx, "BigUint::from(bool)", &args, r, &Nat::from_u64(b as u64));
            let r = call(ctx, || BigInt::from(b));
            expect_int(ctx, "BigInt::from(bool)", &args, r, &Int::from_i64(b as i64));
        }
        ctx.sample(|| "From<bool> for both types".to_string());
    }
    if ctx.space("G2") {
        let mut mants: Vec<u64> = vec![0, 1, (1 << 52) - 1, 1 << 51, (1 << 51) + 1, 0x000A_AAAA_AAAA_AAAA, 0x0005_5555_5555_5555];
        for k in 0..52 {
            mants.push(1 << k);
            if mants.len() < 96 {
                mants.push(((1u64 << 52) - 1) ^ (1 << k));
            }
        }
        mants.sort();
        mants.dedup();
        for e in 0..2048u64 {
            if !ctx.mine(e) {
                continue;
            }
            for &m in &mants {
                for s in [0u64, 1] {
                    let bits = (s << 63) | (e << 52) | m;
                    let f = f64::from_bits(bits);
                    ctx.case();
                    let want = refint::float_bits_to_int(bits, 53, 11);
                    if f.is_finite() && f.abs() >= 1.0 {
                        ctx.nontrivial(1);
                    }
                    ctx.tr(|| format!("fromf64 {:x} {}", bits, want.as_ref().map_or("None".to_string(), |w| w.to_hex())));
                    ctx.compared(2);
                    let r = call(ctx, || BigInt::from_f64(f).map(|x| int_of(&x)));
                    if r != Out::Ret(want.clone()) {
                        ctx.viol(format!("BigInt::from_f64 bits={:016x}", bits), "from_f64 is not the float truncated toward zero (None for NaN/inf)", vec![format!("{:e}", f)], format!("{:?}", want.as_ref().map(|w| w.to_hex())), format!("{:?}", r));
                    }
                    let wantu = match &want {
                        Some(w) if !w.neg => Some(w.mag.clone()),
                        _ => None,
                    };
                    let r = call(ctx, || BigUint::from_f64(f).map(|x| nat_of(&x)));
                    if r != Out::Ret(wantu.clone()) {
                        ctx.viol(format!("BigUint::from_f64 bits={:016x}", bits), "from_f64 wrong", vec![format!("{:e}", f)], format!("{:?}", wantu.as_ref().map(|w| w.to_hex())), format!("{:?}", r));
                    }
                    // the ToBigUint / ToBigInt impls for the float types are separate entry points
                    ctx.compared(2);
                    let r = call(ctx, || ToBigUint::to_biguint(&f).map(|x| nat_of(&x)));
                    if r != Out::Ret(wantu.clone()) {
                        ctx.viol(format!("f64::to_biguint bits={:016x}", bits), "ToBigUint for f64 is not the float truncated toward zero (None for NaN/inf and values <= -1)", vec![format!("{:e}", f)], format!("{:?}", wantu.as_ref().map(|w| w.to_hex())), format!("{:?}", r));
                    }
                    let r = call(ctx, || ToBigInt::to_bigint(&f).map(|x| int_of(&x)));
                    if r != Out::Ret(want.clone()) {
                        ctx.viol(format!("f64::to_bigint bits={:016x}", bits), "ToBigInt for f64 is not the float truncated toward zero (None for NaN/inf)", vec![format!("{:e}", f)], format!("{:?}", want.as_ref().map(|w| w.to_hex())), format!("{:?}", r));
                    }
                    if let Some(w) = &want {
                        if f.fract() == 0.0 {
                            ctx.compared(1);
                            let back = call(ctx, || bi_int(w).to_f64().map(|g| g.to_bits()));
                            let wb = if w.is_zero() { 0 } else { bits };
                            if back != Out::Ret(Some(wb)) {
                                ctx.viol(format!("to_f64(from_f64) bits={:016x}", bits), "round trip of an integral float failed", vec![], format!("{:016x}", wb), format!("{:x?}", back));
                            }
                        }
                    }
                }
            }
            if e == 1075 {
                ctx.sample(|| format!("from_f64 exponent field {} x {} mantissa patterns x sign", e, mants.len()));
            }
        }
    }
}

fn body(ctx: &mut Ctx) {
    ctx.set_transcript_every(ctx.tier.pick(101, 100003));
    ints_to_prim(ctx);
    prims_to_big(ctx);
    big_to_float(ctx);
    float_to_big(ctx);
}

fn main() {
    runner::main(SPEC, body)
}
