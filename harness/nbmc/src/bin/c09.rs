//! C09 -- byte and digit-vector import/export is exact, minimal and order-consistent; the digit
//! iterators behave as exact-size double-ended iterators under any call interleaving.
use nbmc::*;
use num_traits::{FromBytes, ToBytes};
use std::collections::VecDeque;

const SPEC: Spec = Spec {
    id: "C09",
    engine: "E-prod (exhaustive enumeration of values and byte/word slices vs refint) + E-hist (complete tree walk over iterator call sequences on the real iterators vs a VecDeque model; histories are not merged)",
    rule: "export: every value of the stated families through every byte/digit export of both types; import: every byte string over {00,01,7f,80,ff} and every u32 slice over {0,1,2^31,2^32-1} up to the length bound through every constructor; iterators: every call sequence over {next, next_back, nth(0), nth(1), nth(2)} up to the depth bound on iter_u32_digits / iter_u64_digits of 16 values, with len/size_hint after every call and last/count/rev().next()/collect/skip/step_by/rev().nth on a replayed copy of every prefix, and every call sequence over the long-skip alphabet {next, next_back, nth(1), nth(3), nth(4), nth(7)} on 4 values of 12..17 u32 digits; non-trivial = value >= 2^32 (export), slice with redundant padding or sign extension (import), history that consumed from both ends (iterators)",
    assumptions: &[
        "iterator call sequences are bounded in length (every sequence up to the bound is executed; sequences are longer than the digit lists, so exhaustion and fused behaviour are inside the bound)",
        "refint base-256 / 2^32 / two's-complement export is trusted; cross-checked against Python int.to_bytes on a transcript slice",
    ],
    bounds_quick: "E1 +-Dense(S32,3) and 2^(8k-1), 2^(8k-1)+-1, 2^(8k)-1 for k<=24; Ib bytes {00,01,7f,80,ff}^<=7; Iw u32 {0,1,2^31,2^32-1}^<=7 + long padded slices; IT call sequences up to length 8 on 16 values x 2 iterator kinds; IT2 long-skip call sequences up to length 6 on 4 values of 12..17 u32 digits x 2 kinds; L every byte length 8..=72 and 255,256,257,1000,8801 x 8 shapes x 5 paddings (imports, word imports, exports)",
    bounds_thorough: "E1; Ib length <= 9; Iw length <= 9; IT call sequences up to length 10; IT2 up to length 8; L up to 32793 bytes",
    hang_secs: 120,
    probes: None,
    max_workers: 16,
};

fn hexb(b: &[u8]) -> String {
    b.iter().map(|x| format!("{:02x}", x)).collect()
}

fn export_value(ctx: &mut Ctx, v: &Int) {
    ctx.case();
    if v.mag.bits() > 32 {
        ctx.nontrivial(1);
    }
    let x = bi_int(v);
    let args = || vec![format!("v={}", v.to_hex())];
    let mut le = v.mag.to_bytes_le_min();
    if le.is_empty() {
        le.push(0);
    }
    let mut be = le.clone();
    be.reverse();
    let sle = v.to_signed_bytes_le();
    let mut sbe = sle.clone();
    sbe.reverse();
    ctx.tr(|| format!("sbytes {} {}", v.to_hex(), hexb(&sle)));
    ctx.outcome_str(&hexb(&sle));
    let sign = if v.is_zero() {
        Sign::NoSign
    } else if v.neg {
        Sign::Minus
    } else {
        Sign::Plus
    };
    let u32d = v.mag.to_u32_digits();
    let u64d = v.mag.digits().to_vec();
    macro_rules! eq {
        ($name:expr, $got:expr, $want:expr) => {{
            let r = call(ctx, || $got);
            ctx.compared(1);
            let w = $want;
            if r != Out::Ret(w.clone()) {
                ctx.viol(format!("{} v={}", $name, v.to_hex()), "export differs from the exact minimal digit sequence", args(), format!("{:x?}", w), format!("{:x?}", r));
            }
        }};
    }
    eq!("BigInt::to_bytes_le", x.to_bytes_le(), (sign, le.clone()));
    eq!("BigInt::to_bytes_be", x.to_bytes_be(), (sign, be.clone()));
    eq!("BigInt::to_signed_bytes_le", x.to_signed_bytes_le(), sle.clone());
    eq!("BigInt::to_signed_bytes_be", x.to_signed_bytes_be(), sbe.clone());
    eq!("BigInt::to_le_bytes (ToBytes)", ToBytes::to_le_bytes(&x), sle.clone());
    eq!("BigInt::to_be_bytes (ToBytes)", ToBytes::to_be_bytes(&x), sbe.clone());
    eq!("BigInt::to_u32_digits", x.to_u32_digits(), (sign, u32d.clone()));
    eq!("BigInt::to_u64_digits", x.to_u64_digits(), (sign, u64d.clone()));
    eq!("BigInt::iter_u32_digits.collect", x.iter_u32_digits().collect::<Vec<u32>>(), u32d.clone());
    eq!("BigInt::iter_u64_digits.collect", x.iter_u64_digits().collect::<Vec<u64>>(), u64d.clone());
    eq!("BigInt::iter_u32_digits.rev.collect", x.iter_u32_digits().rev().collect::<Vec<u32>>(), u32d.iter().rev().cloned().collect::<Vec<u32>>());
    // signed round trip
    eq!("from_signed_bytes_le(to_signed_bytes_le)", int_of(&BigInt::from_signed_bytes_le(&x.to_signed_bytes_le())), v.clone());
    eq!("from_signed_bytes_be(to_signed_bytes_be)", int_of(&BigInt::from_signed_bytes_be(&x.to_signed_bytes_be())), v.clone());
    if !v.neg {
        let u = bu_nat(&v.mag);
        eq!("BigUint::to_bytes_le", u.to_bytes_le(), le.clone());
        eq!("BigUint::to_bytes_be", u.to_bytes_be(), be.clone());
        eq!("BigUint::to_le_bytes (ToBytes)", ToBytes::to_le_bytes(&u), le.clone());
        eq!("BigUint::to_be_bytes (ToBytes)", ToBytes::to_be_bytes(&u), be.clone());
        eq!("BigUint::to_u32_digits", u.to_u32_digits(), u32d.clone());
        eq!("BigUint::to_u64_digits", u.to_u64_digits(), u64d.clone());
        eq!("BigUint::iter_u32_digits.collect", u.iter_u32_digits().collect::<Vec<u32>>(), u32d.clone());
        eq!("BigUint::iter_u64_digits.collect", u.iter_u64_digits().collect::<Vec<u64>>(), u64d.clone());
        eq!("BigUint::iter_u64_digits.rev.collect", u.iter_u64_digits().rev().collect::<Vec<u64>>(), u64d.iter().rev().cloned().collect::<Vec<u64>>());
        eq!("BigUint::iter_u32_digits.len", u.iter_u32_digits().len(), u32d.len());
        eq!("BigUint::iter_u64_digits.len", u.iter_u64_digits().len(), u64d.len());
        eq!("from_bytes_le(to_bytes_le)", nat_of(&BigUint::from_bytes_le(&u.to_bytes_le())), v.mag.clone());
        eq!("from_bytes_be(to_bytes_be)", nat_of(&BigUint::from_bytes_be(&u.to_bytes_be())), v.mag.clone());
    }
}

fn import_bytes(ctx: &mut Ctx, b: &[u8]) {
    ctx.case();
    if b.len() >= 2 && (b[b.len() - 1] == 0 || b[b.len() - 1] == 0xff) {
        ctx.nontrivial(1);
    }
    let mut rev = b.to_vec();
    rev.reverse();
    let mag = Nat::from_bytes_le(b);
    let sv = Int::from_signed_bytes_le(b);
    ctx.outcome_digits(sv.mag.digits());
    let args = || vec![format!("bytes_le={}", hexb(b))];
    let r = call(ctx, || BigUint::from_bytes_le(b));
    expect_nat(ctx, "BigUint::from_bytes_le", &args, r, &mag);
    let r = call(ctx, || BigUint::from_bytes_be(&rev));
    expect_nat(ctx, "BigUint::from_bytes_be", &args, r, &mag);
    let r = call(ctx, || <BigUint as FromBytes>::from_le_bytes(b));
    expect_nat(ctx, "BigUint::from_le_bytes (FromBytes)", &args, r, &mag);
    let r = call(ctx, || <BigUint as FromBytes>::from_be_bytes(&rev));
    expect_nat(ctx, "BigUint::from_be_bytes (FromBytes)", &args, r, &mag);
    let r = call(ctx, || BigInt::from_signed_bytes_le(b));
    expect_int(ctx, "BigInt::from_signed_bytes_le", &args, r, &sv);
    let r = call(ctx, || BigInt::from_signed_bytes_be(&rev));
    expect_int(ctx, "BigInt::from_signed_bytes_be", &args, r, &sv);
    let r = call(ctx, || <BigInt as FromBytes>::from_le_bytes(b));
    expect_int(ctx, "BigInt::from_le_bytes (FromBytes)", &args, r, &sv);
    let r = call(ctx, || <BigInt as FromBytes>::from_be_bytes(&rev));
    expect_int(ctx, "BigInt::from_be_bytes (FromBytes)", &args, r, &sv);
    for (s, neg, zero) in [(Sign::Plus, false, false), (Sign::Minus, true, false), (Sign::NoSign, false, true)] {
        let want = if zero { Int::zero() } else { Int::new(neg, mag.clone()) };
        let r = call(ctx, || BigInt::from_bytes_le(s, b));
        expect_int(ctx, "BigInt::from_bytes_le", &args, r, &want);
        let r = call(ctx, || BigInt::from_bytes_be(s, &rev));
        expect_int(ctx, "BigInt::from_bytes_be", &args, r, &want);
    }
}

fn import_words(ctx: &mut Ctx, w: &[u32], pre: &[(BigUint, BigInt)]) {
    ctx.case();
    if w.last() == Some(&0) {
        ctx.nontrivial(1);
    }
    let mag = Nat::from_u32_digits(w);
    let args = || vec![format!("u32_le={:x?}", w)];
    let r = call(ctx, || BigUint::new(w.to_vec()));
    expect_nat(ctx, "BigUint::new", &args, r, &mag);
    let r = call(ctx, || BigUint::from_slice(w));
    expect_nat(ctx, "BigUint::from_slice", &args, r, &mag);
    for (pu, pi) in pre {
        let r = call(ctx, || {
            let mut t = pu.clone();
            t.assign_from_slice(w);
            t
        });
        expect_nat(ctx, "BigUint::assign_from_slice", &args, r, &mag);
        for (s, neg, zero) in [(Sign::Plus, false, false), (Sign::Minus, true, false), (Sign::NoSign, false, true)] {
            let want = if zero { Int::zero() } else { Int::new(neg, mag.clone()) };
            let r = call(ctx, || {
                let mut t = pi.clone();
                t.assign_from_slice(s, w);
                t
            });
            expect_int(ctx, "BigInt::assign_from_slice", &args, r, &want);
        }
    }
    for (s, neg, zero) in [(Sign::Plus, false, false), (Sign::Minus, true, false), (Sign::NoSign, false, true)] {
        let want = if zero { Int::zero() } else { Int::new(neg, mag.clone()) };
        let r = call(ctx, || BigInt::new(s, w.to_vec()));
        expect_int(ctx, "BigInt::new", &args, r, &want);
        let r = call(ctx, || BigInt::from_slice(s, w));
        expect_int(ctx, "BigInt::from_slice", &args, r, &want);
    }
}

fn odometer(syms: usize, len: usize, mut f: impl FnMut(&[usize])) {
    let mut idx = vec![0usize; len];
    loop {
        f(&idx);
        let mut p = 0;
        loop {
            if p == len {
                return;
            }
            idx[p] += 1;
            if idx[p] < syms {
                break;
            }
            idx[p] = 0;
            p += 1;
        }
    }
}

// ------------------------------------------------------------ iterator histories

#[derive(Clone, Copy, Debug, PartialEq)]
enum Call {
    Next,
    NextBack,
    Nth(usize),
}
const CALLS: [Call; 5] = [Call::Next, Call::NextBack, Call::Nth(0), Call::Nth(1), Call::Nth(2)];

fn model_step(dq: &mut VecDeque<u64>, c: Call) -> Option<u64> {
    match c {
        Call::Next => dq.pop_front(),
        Call::NextBack => dq.pop_back(),
        Call::Nth(n) => {
            for _ in 0..n {
                dq.pop_front();
            }
            dq.pop_front()
        }
    }
}

/// Replays `hist` on a fresh iterator of kind `K` and returns every observation made.
macro_rules! replay_iter {
    ($mk:expr, $hist:expr, $conv:expr) => {{
        let mut it = $mk;
        let mut obs: Vec<(Option<u64>, usize, (usize, Option<usize>))> = Vec::new();
        for &c in $hist {
            let r = match c {
                Call::Next => it.next(),
                Call::NextBack => it.next_back(),
                Call::Nth(n) => it.nth(n),
            };
            obs.push((r.map($conv), it.len(), it.size_hint()));
        }
        (it, obs)
    }};
}

struct ItCase<'a> {
    u: &'a BigUint,
    digits32: Vec<u64>,
    digits64: Vec<u64>,
}

fn check_history(ctx: &mut Ctx, case: &ItCase, kind: u8, hist: &[Call]) {
    ctx.case();
    if hist.contains(&Call::NextBack) && hist.iter().any(|c| *c != Call::NextBack) {
        ctx.nontrivial(1);
    }
    let digits = if kind == 32 { &case.digits32 } else { &case.digits64 };
    let mut dq: VecDeque<u64> = digits.iter().cloned().collect();
    let mut want: Vec<(Option<u64>, usize, (usize, Option<usize>))> = Vec::new();
    for &c in hist {
        let r = model_step(&mut dq, c);
        want.push((r, dq.len(), (dq.len(), Some(dq.len()))));
    }
    let key = |what: &str| format!("iter_u{}_digits {} value={} history={:?}", kind, what, nat_of(case.u).to_hex(), hist);
    let args = || vec![format!("value={}", nat_of(case.u).to_hex()), format!("{:?}", hist)];
    let u = case.u;
    // live observations after every call
    let r = guard(|| if kind == 32 { replay_iter!(u.iter_u32_digits(), hist, |x| x as u64).1 } else { replay_iter!(u.iter_u64_digits(), hist, |x| x).1 });
    ctx.calls(hist.len() as u64);
    ctx.compared(hist.len() as u64);
    match r {
        Ok(obs) => {
            if obs != want {
                let first = obs.iter().zip(&want).position(|(a, b)| a != b).unwrap_or(0);
                ctx.viol(key("call results / len / size_hint"), "iterator diverges from the digit list model", args(), format!("step {}: {:x?}", first, want[first]), format!("step {}: {:x?}", first, obs[first]));
                return;
            }
        }
        Err(m) => {
            ctx.viol(key("panic"), "iterator call panicked", args(), "no panic".into(), m);
            return;
        }
    }
    // consuming observers on replayed copies of the same prefix
    let rest: Vec<u64> = dq.iter().cloned().collect();
    macro_rules! consuming {
        ($name:expr, $e32:expr, $e64:expr, $want:expr) => {{
            ctx.calls(1);
            ctx.compared(1);
            let r = guard(|| if kind == 32 { $e32 } else { $e64 });
            let w = $want;
            if r != Ok(w.clone()) {
                ctx.viol(key($name), "consuming observer after this prefix disagrees with the digit list model", args(), format!("{:x?}", w), format!("{:x?}", r));
            }
        }};
    }
    consuming!("last()", replay_iter!(u.iter_u32_digits(), hist, |x| x as u64).0.last().map(|x| x as u64), replay_iter!(u.iter_u64_digits(), hist, |x| x).0.last(), rest.last().cloned());
    consuming!("count()", replay_iter!(u.iter_u32_digits(), hist, |x| x as u64).0.count(), replay_iter!(u.iter_u64_digits(), hist, |x| x).0.count(), rest.len());
    consuming!("rev().next()", replay_iter!(u.iter_u32_digits(), hist, |x| x as u64).0.rev().next().map(|x| x as u64), replay_iter!(u.iter_u64_digits(), hist, |x| x).0.rev().next(), rest.last().cloned());
    consuming!("collect()", replay_iter!(u.iter_u32_digits(), hist, |x| x as u64).0.map(|x| x as u64).collect::<Vec<u64>>(), replay_iter!(u.iter_u64_digits(), hist, |x| x).0.collect::<Vec<u64>>(), rest.clone());
    consuming!(
        "rev().collect()",
        replay_iter!(u.iter_u32_digits(), hist, |x| x as u64).0.rev().map(|x| x as u64).collect::<Vec<u64>>(),
        replay_iter!(u.iter_u64_digits(), hist, |x| x).0.rev().collect::<Vec<u64>>(),
        rest.iter().rev().cloned().collect::<Vec<u64>>()
    );
    // adaptors that std implements through nth / nth_back / try_fold on the replayed copy
    consuming!(
        "skip(2).next()",
        replay_iter!(u.iter_u32_digits(), hist, |x| x as u64).0.skip(2).next().map(|x| x as u64),
        replay_iter!(u.iter_u64_digits(), hist, |x| x).0.skip(2).next(),
        rest.get(2).cloned()
    );
    consuming!(
        "skip(3).collect()",
        replay_iter!(u.iter_u32_digits(), hist, |x| x as u64).0.skip(3).map(|x| x as u64).collect::<Vec<u64>>(),
        replay_iter!(u.iter_u64_digits(), hist, |x| x).0.skip(3).collect::<Vec<u64>>(),
        rest.iter().skip(3).cloned().collect::<Vec<u64>>()
    );
    consuming!(
        "step_by(2).collect()",
        replay_iter!(u.iter_u32_digits(), hist, |x| x as u64).0.step_by(2).map(|x| x as u64).collect::<Vec<u64>>(),
        replay_iter!(u.iter_u64_digits(), hist, |x| x).0.step_by(2).collect::<Vec<u64>>(),
        rest.iter().step_by(2).cloned().collect::<Vec<u64>>()
    );
    consuming!(
        "step_by(3).collect()",
        replay_iter!(u.iter_u32_digits(), hist, |x| x as u64).0.step_by(3).map(|x| x as u64).collect::<Vec<u64>>(),
        replay_iter!(u.iter_u64_digits(), hist, |x| x).0.step_by(3).collect::<Vec<u64>>(),
        rest.iter().step_by(3).cloned().collect::<Vec<u64>>()
    );
    consuming!(
        "rev().step_by(3).collect()",
        replay_iter!(u.iter_u32_digits(), hist, |x| x as u64).0.rev().step_by(3).map(|x| x as u64).collect::<Vec<u64>>(),
        replay_iter!(u.iter_u64_digits(), hist, |x| x).0.rev().step_by(3).collect::<Vec<u64>>(),
        rest.iter().rev().step_by(3).cloned().collect::<Vec<u64>>()
    );
    consuming!(
        "rev().nth(2)",
        replay_iter!(u.iter_u32_digits(), hist, |x| x as u64).0.rev().nth(2).map(|x| x as u64),
        replay_iter!(u.iter_u64_digits(), hist, |x| x).0.rev().nth(2),
        rest.iter().rev().nth(2).cloned()
    );
    // fused: two further calls after the history
    let mut h2 = hist.to_vec();
    h2.push(Call::Next);
    h2.push(Call::NextBack);
    let mut dq2 = dq.clone();
    let w1 = model_step(&mut dq2, Call::Next);
    let w2 = model_step(&mut dq2, Call::NextBack);
    ctx.compared(1);
    let r = guard(|| {
        let o = if kind == 32 { replay_iter!(u.iter_u32_digits(), &h2, |x| x as u64).1 } else { replay_iter!(u.iter_u64_digits(), &h2, |x| x).1 };
        (o[o.len() - 2].0, o[o.len() - 1].0)
    });
    if r != Ok((w1, w2)) {
        ctx.viol(key("two further calls"), "calls after the history (exhaustion / fused behaviour) disagree with the model", args(), format!("{:x?}", (w1, w2)), format!("{:x?}", r));
    }
}

fn walk(ctx: &mut Ctx, case: &ItCase, kind: u8, hist: &mut Vec<Call>, maxlen: usize) {
    walk_with(ctx, case, kind, hist, maxlen, &CALLS)
}

fn walk_with(ctx: &mut Ctx, case: &ItCase, kind: u8, hist: &mut Vec<Call>, maxlen: usize, calls: &[Call]) {
    check_history(ctx, case, kind, hist);
    if hist.len() == maxlen {
        return;
    }
    for &c in calls {
        hist.push(c);
        walk_with(ctx, case, kind, hist, maxlen, calls);
        hist.pop();
    }
}

/// Long-skip alphabet of the second iterator space: skips that cross one, two and three whole 64-bit digits from
/// either phase of a u32 iterator (a fast path in `nth` would be keyed on n / 2 and on the half it stands on).
const CALLS_SKIP: [Call; 6] = [Call::Next, Call::NextBack, Call::Nth(1), Call::Nth(3), Call::Nth(4), Call::Nth(7)];

fn body(ctx: &mut Ctx) {
    let tier = ctx.tier;
    ctx.set_transcript_every(tier.pick(7, 7));
    // ---- E1 export
    if ctx.space("E1") {
        let mut vals: Vec<Nat> = alpha::dense(&alpha::SIGMA32, 3).iter().map(|d| Nat::from_digits(d)).collect();
        for k in 1..=24u64 {
            let p = Nat::one().shl(8 * k - 1);
            vals.push(p.clone());
            vals.push(p.add(&Nat::one()));
            vals.push(p.sub(&Nat::one()).unwrap());
            vals.push(Nat::one().shl(8 * k).sub(&Nat::one()).unwrap());
            vals.push(Nat::one().shl(8 * k));
        }
        for (i, n) in vals.iter().enumerate() {
            if !ctx.mine(i as u64) {
                continue;
            }
            export_value(ctx, &Int::new(false, n.clone()));
            if !n.is_zero() {
                export_value(ctx, &Int::new(true, n.clone()));
            }
            ctx.sample(|| format!("v=+-{} through every byte / u32 / u64 export of BigUint and BigInt", n.to_hex()));
        }
    }
    // ---- Ib import bytes
    if ctx.space("Ib") {
        let syms = [0x00u8, 0x01, 0x7f, 0x80, 0xff];
        let maxlen = tier.pick(7, 9);
        let mut o = 0u64;
        import_bytes(ctx, &[]);
        for len in 1..=maxlen {
            odometer(syms.len(), len, |idx| {
                let take = ctx.mine(o);
                o += 1;
                if !take {
                    return;
                }
                let b: Vec<u8> = idx.iter().map(|&i| syms[i]).collect();
                import_bytes(ctx, &b);
                if o % 4001 == 0 {
                    ctx.sample(|| format!("bytes_le={} through from_bytes_le/be, from_signed_bytes_le/be, FromBytes, BigInt::from_bytes x 3 signs", hexb(&b)));
                }
            });
        }
    }
    // ---- Iw import words
    if ctx.space("Iw") {
        let syms = [0u32, 1, 1 << 31, u32::MAX];
        let maxlen = tier.pick(7, 9);
        let pre: Vec<(BigUint, BigInt)> = vec![
            (BigUint::ZERO, BigInt::ZERO),
            (bu(&[7]), -BigInt::from(7)),
            (bu(&alpha::pat(9, 10)), -BigInt::from(bu(&alpha::pat(9, 10)))),
        ];
        let mut o = 0u64;
        import_words(ctx, &[], &pre);
        for len in 1..=maxlen {
            odometer(syms.len(), len, |idx| {
                let take = ctx.mine(o);
                o += 1;
                if !take {
                    return;
                }
                let w: Vec<u32> = idx.iter().map(|&i| syms[i]).collect();
                import_words(ctx, &w, &pre);
                if o % 1009 == 0 {
                    ctx.sample(|| format!("u32_le={:x?} through new, from_slice, assign_from_slice (onto 3 existing values), BigInt variants x 3 signs", w));
                }
            });
        }
        // longer structured slices with 0..3 redundant padding words
        for (k, &l) in [15usize, 16, 17, 33].iter().enumerate() {
            if !ctx.mine((1 << 40) + k as u64) {
                continue;
            }
            for p in 0..alpha::NPAT {
                let base = Nat::from_digits(&alpha::pat((l + 1) / 2, p)).to_u32_digits();
                let mut w: Vec<u32> = base.into_iter().take(l).collect();
                for pad in 0..=3 {
                    import_words(ctx, &w, &pre);
                    let _ = pad;
                    w.push(0);
                }
            }
        }
    }
    // ---- L: every byte length 8..=72 in 8 shapes with sign / zero padding, and long values (thousands of bytes)
    if ctx.space("L") {
        let mut lens: Vec<usize> = (8..=72).collect();
        lens.extend(tier.pick(vec![255, 256, 257, 1000, 8801], vec![255, 256, 257, 1000, 8191, 8192, 8193, 8801, 32793]));
        let pre: Vec<(BigUint, BigInt)> = vec![(BigUint::ZERO, BigInt::ZERO), (bu(&alpha::pat(9, 10)), -BigInt::from(bu(&alpha::pat(9, 10))))];
        for (o, &l) in lens.iter().enumerate() {
            if !ctx.mine(o as u64) {
                continue;
            }
            let mut st = 0x1234_5678_9abc_def0u64 ^ (l as u64);
            let dense: Vec<u8> = (0..l).map(|_| (alpha::lcg(&mut st) >> 56) as u8).collect();
            let mut shapes: Vec<Vec<u8>> = vec![dense.clone(), vec![0xff; l], vec![0x00; l]];
            for top in [0x7fu8, 0x80, 0x01, 0xfe] {
                let mut v = dense.clone();
                v[l - 1] = top;
                shapes.push(v);
            }
            let mut v = vec![0u8; l];
            v[l - 1] = 0x80;
            shapes.push(v); // -2^(8l-1)
            for b in &shapes {
                import_bytes(ctx, b);
                for (pad, n) in [(0x00u8, 1usize), (0x00, 9), (0xff, 1), (0xff, 8)] {
                    let mut p = b.clone();
                    p.extend(std::iter::repeat(pad).take(n));
                    import_bytes(ctx, &p);
                }
                // the same bytes as u32 words, with redundant padding
                let mut w: Vec<u32> = b.chunks(4).map(|c| c.iter().enumerate().fold(0u32, |a, (i, &x)| a | ((x as u32) << (8 * i)))).collect();
                import_words(ctx, &w, &pre);
                w.extend([0, 0, 0]);
                import_words(ctx, &w, &pre);
                // and exported back
                let n = Nat::from_bytes_le(b);
                export_value(ctx, &Int::new(false, n.clone()));
                if !n.is_zero() {
                    export_value(ctx, &Int::new(true, n));
                }
            }
            if l == 64 || l == 8801 {
                ctx.sample(|| format!("{} bytes x 8 shapes x 5 paddings: every byte / signed-byte / u32 import, every export of the value", l));
            }
        }
    }
    // ---- IT iterator histories
    if ctx.space("IT") {
        let maxlen = tier.pick(8, 10);
        let h = 1u64 << 32;
        let vals: Vec<Vec<u64>> = vec![
            vec![],
            vec![1],
            vec![h - 1],
            vec![h],
            vec![h + 2],
            vec![alpha::M],
            vec![5, 1],
            vec![0, h],
            vec![h, h | 3],
            vec![alpha::M, alpha::M],
            vec![0, 7],
            vec![0, 0, 1],
            vec![h, 0, h],
            vec![1, h + 1, h - 1],
            vec![alpha::M, 0, alpha::M],
            vec![7, 0, 0, 9 << 32],
        ];
        let mut o = 0u64;
        for vd in &vals {
            let u = bu(vd);
            let n = Nat::from_digits(vd);
            let case = ItCase { u: &u, digits32: n.to_u32_digits().iter().map(|&x| x as u64).collect(), digits64: n.digits().to_vec() };
            for kind in [32u8, 64] {
                // shard by the first two calls
                for &c0 in &CALLS {
                    for &c1 in &CALLS {
                        let take = ctx.mine(o);
                        o += 1;
                        if !take {
                            continue;
                        }
                        if c0 == Call::Next && c1 == Call::Next {
                            // the shorter prefixes are checked once, by the owner of the first shard
                            check_history(ctx, &case, kind, &[]);
                            for &c in &CALLS {
                                check_history(ctx, &case, kind, &[c]);
                            }
                        }
                        let mut hist = vec![c0, c1];
                        walk(ctx, &case, kind, &mut hist, maxlen);
                        ctx.sample(|| format!("value {} iter_u{}_digits: every call sequence starting [{:?},{:?}] up to length {}", n.to_hex(), kind, c0, c1, maxlen));
                    }
                }
            }
        }
    }
    // ---- IT2 long skips on longer values (odd and even numbers of u32 halves)
    if ctx.space("IT2") {
        let maxlen = tier.pick(6, 8);
        let h = 1u64 << 32;
        let vals: Vec<Vec<u64>> = vec![
            vec![1, 2, 3, 4, 5, 6 | (7 << 32)],
            vec![h | 1, 2 * h | 3, 4 * h | 5, 6 * h | 7, 8 * h | 9, 10 * h | 11, 12],
            vec![alpha::M, 0, h, alpha::M, 1, 0, 0, h - 1],
            vec![0, 0, 0, 0, 0, 0, 0, 0, h],
        ];
        let mut o = 0u64;
        for vd in &vals {
            let u = bu(vd);
            let n = Nat::from_digits(vd);
            let case = ItCase { u: &u, digits32: n.to_u32_digits().iter().map(|&x| x as u64).collect(), digits64: n.digits().to_vec() };
            for kind in [32u8, 64] {
                for &c0 in &CALLS_SKIP {
                    let take = ctx.mine(o);
                    o += 1;
                    if !take {
                        continue;
                    }
                    if c0 == Call::Next {
                        check_history(ctx, &case, kind, &[]);
                    }
                    let mut hist = vec![c0];
                    walk_with(ctx, &case, kind, &mut hist, maxlen, &CALLS_SKIP);
                    ctx.sample(|| format!("value {} iter_u{}_digits: every call sequence over the long-skip alphabet starting [{:?}] up to length {}", n.to_hex(), kind, c0, maxlen));
                }
            }
        }
    }
}

fn main() {
    runner::main(SPEC, body)
}
