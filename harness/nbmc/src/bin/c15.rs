//! C15 -- unsafe code never touches memory outside its buffers nor yields invalid UTF-8.
//!
//! The same enumeration runs under three monitors (checks/c15.sh): the guard-page allocator with
//! the PROT_NONE page after every block ("end"), with it before every block ("start"), and
//! valgrind memcheck on the plain release build (reduced space).  In-process monitors: every
//! borrowed operand is compared with a saved copy after each call, every produced String is
//! validated byte-wise, results are compared with refint (a stray write inside a buffer shows up
//! as a wrong digit).
use nbmc::*;
use num_integer::Integer;
use num_traits::Num;
use rand::RngCore;

const SPEC: Spec = Spec {
    id: "C15",
    engine: "E-prod under memory monitors (exhaustive enumeration of operand lengths / contents / buffer provenance on the real code, executed under a guard-page global allocator in two placements and under valgrind memcheck; process faults are mapped to the case in flight)",
    rule: "every (len_a, len_b) in [0,L]^2 x 6 digit contents per side x buffer provenance {exact-fit, slack capacity} through the add/sub forms that reach the raw-pointer loops with each buffer once as destination and once as source; multiplication, division and radix-conversion callers of those loops; the hardware divide on constructed boundary dividends; to_str_radix / formatters for every radix (ASCII validation); gen_biguint for every bit size 0..=320 (the u32 view of the u64 buffer); a case is non-trivial when the longer operand has >= 5 digits (asm block executed) or the call produces text / random bits",
    assumptions: &[
        "a read or write beyond a heap block is observed only on the guarded side of the run at hand: the 'end' and 'start' placements together cover both sides; accesses that stay inside the block but outside the slice are caught only through wrong results or modified operands",
        "the asm! operand contract (the loops decrement a register declared `in`) is a compile-time obligation that no execution-based monitor can observe; not claimed",
        "valgrind runs a reduced space (lengths <= 7) because of its slowdown",
    ],
    bounds_quick: "add/sub lengths 0..=12; mul lengths 1..=24; division 10x6 length grid + constructed cases; to_str_radix radix 2..=36 x ~120 values; gen_biguint n in 0..=320 x 2 streams",
    bounds_thorough: "add/sub lengths 0..=17; mul lengths 1..=40; division 12x8; to_str_radix x ~400 values incl. 64..66-digit patterns; gen_biguint n in 0..=640 x 3 streams",
    hang_secs: 120,
    probes: None,
    max_workers: 16,
};

fn contents(len: usize) -> Vec<Vec<u64>> {
    if len == 0 {
        return vec![vec![]];
    }
    let m = alpha::M;
    let mut v = vec![vec![m; len], vec![1; len]];
    let mut t = vec![m; len];
    t[len - 1] = 1;
    v.push(t);
    let mut t = vec![0; len];
    t[len - 1] = 1;
    v.push(t);
    let mut t = vec![0; len];
    t[0] = m;
    t[len - 1] = m;
    v.push(t);
    v.push(vec![alpha::H; len]);
    v.sort();
    v.dedup();
    v
}

/// two provenances of the same value: exact-fit buffer (clone) and a buffer with slack capacity
fn provenances(d: &[u64]) -> Vec<BigUint> {
    let x = bu(d);
    let exact = x.clone(); // Vec::clone allocates exactly len
    let slack = (x.clone() << 640u32) >> 640u32; // leaves spare capacity behind the digits
    vec![exact, slack]
}

struct StreamRng {
    mode: u8,
    ctr: u32,
}
impl RngCore for StreamRng {
    fn next_u32(&mut self) -> u32 {
        self.ctr = self.ctr.wrapping_add(1);
        if self.ctr > 64 {
            // explicit horizon: after 64 words the stream is all zeros, so redraw loops terminate
            return 0;
        }
        match self.mode {
            0 => u32::MAX,
            1 => self.ctr.wrapping_mul(0x9E37_79B9),
            _ => 0x8000_0001,
        }
    }
    fn next_u64(&mut self) -> u64 {
        (self.next_u32() as u64) | ((self.next_u32() as u64) << 32)
    }
    fn fill_bytes(&mut self, dest: &mut [u8]) {
        for c in dest.chunks_mut(4) {
            let w = self.next_u32().to_le_bytes();
            c.copy_from_slice(&w[..c.len()]);
        }
    }
    fn try_fill_bytes(&mut self, dest: &mut [u8]) -> Result<(), rand::Error> {
        self.fill_bytes(dest);
        Ok(())
    }
}

fn check_ascii(ctx: &mut Ctx, form: &str, s: &str, radix: u32, upper: bool) {
    ctx.compared(1);
    let b = s.as_bytes();
    let body = if b.first() == Some(&b'-') { &b[1..] } else { b };
    let ok = !body.is_empty()
        && body.iter().all(|&c| {
            let d = match c {
                b'0'..=b'9' => (c - b'0') as u32,
                b'a'..=b'z' if !upper => (c - b'a') as u32 + 10,
                b'A'..=b'Z' if upper => (c - b'A') as u32 + 10,
                _ => 99,
            };
            d < radix
        });
    if !ok || std::str::from_utf8(b).is_err() {
        ctx.viol(format!("{} radix={} text={:?}", form, radix, String::from_utf8_lossy(&b[..b.len().min(60)])), "produced text is not ASCII within the radix alphabet", vec![], "ASCII digits of the radix".into(), format!("{:?}", &b[..b.len().min(40)]));
    }
}

fn addsub(ctx: &mut Ctx, ad: &[u64], bd: &[u64]) {
    let an = Nat::from_digits(ad);
    let bn = Nat::from_digits(bd);
    let sum = an.add(&bn);
    let diff = an.sub(&bn);
    let args = || vec![format!("a={}", an.to_hex()), format!("b={}", bn.to_hex())];
    for a in provenances(ad) {
        for b in provenances(bd) {
            ctx.case();
            if ad.len().max(bd.len()) >= 5 {
                ctx.nontrivial(1);
            }
            let (sa, sb) = (a.to_u64_digits(), b.to_u64_digits());
            let r = call(ctx, || &a + &b);
            expect_nat(ctx, "&a+&b", &args, r, &sum);
            let r = call(ctx, || {
                let mut x = a.clone();
                x += &b;
                x
            });
            expect_nat(ctx, "a+=&b", &args, r, &sum);
            let r = call(ctx, || a.clone() + b.clone());
            expect_nat(ctx, "a+b", &args, r, &sum);
            if let Some(d) = &diff {
                let r = call(ctx, || &a - &b);
                expect_nat(ctx, "&a-&b", &args, r, d);
                let r = call(ctx, || {
                    let mut x = a.clone();
                    x -= &b;
                    x
                });
                expect_nat(ctx, "a-=&b", &args, r, d);
                let r = call(ctx, || &a - b.clone());
                expect_nat(ctx, "&a-b", &args, r, d);
            } else {
                let r = call(ctx, || &a - &b);
                expect_panic(ctx, "&a-&b (a<b)", &args, r);
                let r = call(ctx, || &a - b.clone());
                expect_panic(ctx, "&a-b (a<b)", &args, r);
            }
            // BigInt mixed signs reach the subtraction loop with the larger magnitude as destination
            let (ia, ib) = (BigInt::from(a.clone()), -BigInt::from(b.clone()));
            let want = Int::from_nat(an.clone()).sub(&Int::from_nat(bn.clone()));
            let r = call(ctx, || &ia + &ib);
            expect_int(ctx, "BigInt a+(-b)", &args, r, &want);
            let r = call(ctx, || {
                let mut x = ib.clone();
                x += &ia;
                x
            });
            expect_int(ctx, "BigInt (-b)+=a", &args, r, &want);
            // borrowed operands unchanged
            ctx.compared(1);
            if a.to_u64_digits() != sa || b.to_u64_digits() != sb {
                ctx.viol(format!("operand-modified {}", args().join(" ")), "an operand that was only borrowed was modified", args(), "unchanged".into(), "changed".into());
            }
        }
    }
}

fn body(ctx: &mut Ctx) {
    let tier = ctx.tier;
    let lite = std::env::var("NBMC_VALGRIND").is_ok();
    #[cfg(feature = "guardalloc")]
    ctx.count(&format!("guard_mode.{}", nbmc::guardalloc::mode_name()), 1);
    // ---- add / sub
    if ctx.space("AS") {
        let lmax = if lite { 7 } else { tier.pick(12usize, 17usize) };
        let mut o = 0u64;
        for la in 0..=lmax {
            for lb in 0..=lmax {
                let take = ctx.mine(o);
                o += 1;
                if !take {
                    continue;
                }
                let mut j = 0;
                for ad in contents(la) {
                    for bd in contents(lb) {
                        ctx.inner(j);
                        j += 1;
                        addsub(ctx, &ad, &bd);
                    }
                }
                ctx.sample(|| format!("len(a)={} len(b)={}: 6x6 digit contents x {{exact-fit, slack}}^2 x 10 forms", la, lb));
            }
        }
    }
    // ---- multiplication (callers of the add/sub loops with sliced accumulators)
    if ctx.space("MUL") {
        let lmax = if lite { 8 } else { tier.pick(24usize, 40usize) };
        let mut o = 0u64;
        for lx in 1..=lmax {
            for ly in lx..=lmax.max(lx) {
                let take = ctx.mine(o);
                o += 1;
                if !take {
                    continue;
                }
                for p in [0usize, 4, 10] {
                    for q in [0usize, 3, 10] {
                        ctx.case();
                        ctx.nontrivial(1);
                        let (ad, bd) = (alpha::pat(lx, p), alpha::pat(ly, q));
                        let (a, b) = (bu(&ad), bu(&bd));
                        let want = Nat::from_digits(&ad).mul(&Nat::from_digits(&bd));
                        let args = || vec![format!("lx={} ly={} pats {}/{}", lx, ly, p, q)];
                        let r = call(ctx, || &a * &b);
                        expect_nat(ctx, "&a*&b", &args, r, &want);
                        ctx.compared(1);
                        if a.to_u64_digits() != ad || b.to_u64_digits() != bd {
                            ctx.viol(format!("operand-modified mul lx={} ly={}", lx, ly), "a borrowed operand was modified", vec![], "unchanged".into(), "changed".into());
                        }
                    }
                }
            }
        }
        // Karatsuba and Toom-3 temporaries
        if !lite && ctx.mine(1 << 40) {
            for (lx, ly) in [(33usize, 33usize), (33, 65), (40, 70), (64, 64), (65, 129), (257, 257), (257, 300)] {
                ctx.case();
                ctx.nontrivial(1);
                let (ad, bd) = (alpha::pat(lx, 10), alpha::pat(ly, 4));
                let (a, b) = (bu(&ad), bu(&bd));
                let want = Nat::from_digits(&ad).mul(&Nat::from_digits(&bd));
                let r = call(ctx, || &a * &b);
                expect_nat(ctx, "&a*&b (sub-quadratic regimes)", &|| vec![format!("lx={} ly={}", lx, ly)], r, &want);
            }
            ctx.sample(|| "Karatsuba / half-Karatsuba / Toom-3 products (temporaries sliced at block boundaries)".to_string());
        }
    }
    // ---- division (hardware divide, add-back through the addition loop)
    if ctx.space("DIV") {
        // a zero scalar divisor must be turned away before the hardware divide: a panic, never a fault (SIGFPE)
        if ctx.mine(1 << 41) {
            for d in [vec![], vec![7u64], vec![u64::MAX, 1], vec![0, 0, 1]] {
                ctx.case();
                ctx.nontrivial(1);
                let u = bu(&d);
                let i = -BigInt::from(u.clone());
                let args = || vec![format!("x={}", hexs(&d))];
                macro_rules! z {
                    ($name:expr, $e:expr) => {{
                        let r = call(ctx, || $e);
                        expect_panic(ctx, $name, &args, r);
                    }};
                }
                z!("BigUint &x/0u8", &u / 0u8);
                z!("BigUint &x/0u16", &u / 0u16);
                z!("BigUint &x/0u32", &u / 0u32);
                z!("BigUint x/0u64", u.clone() / 0u64);
                z!("BigUint x/0u128", u.clone() / 0u128);
                z!("BigUint x/0usize", u.clone() / 0usize);
                z!("BigUint &x%0u8", &u % 0u8);
                z!("BigUint &x%0u32", &u % 0u32);
                z!("BigUint x%0u64", u.clone() % 0u64);
                z!("BigUint x/=0u32", {
                    let mut y = u.clone();
                    y /= 0u32;
                    y
                });
                z!("BigUint x%=0u32", {
                    let mut y = u.clone();
                    y %= 0u32;
                    y
                });
                z!("BigUint 5u32/x(0)", 5u32 / BigUint::ZERO);
                z!("BigInt &x/0i8", &i / 0i8);
                z!("BigInt &x/0i16", &i / 0i16);
                z!("BigInt &x/0i32", &i / 0i32);
                z!("BigInt x/0i64", i.clone() / 0i64);
                z!("BigInt &x%0i32", &i % 0i32);
                z!("BigInt x%0u32", i.clone() % 0u32);
                z!("BigInt x/=0i32", {
                    let mut y = i.clone();
                    y /= 0i32;
                    y
                });
            }
            ctx.sample(|| "zero scalar divisors of every width on BigUint and BigInt: must panic before the hardware divide".to_string());
        }
        let (la_max, lb_max) = if lite { (5, 3) } else { tier.pick((10usize, 6usize), (12, 8)) };
        let mut o = 0u64;
        for la in 1..=la_max {
            for lb in 1..=lb_max {
                let take = ctx.mine(o);
                o += 1;
                if !take {
                    continue;
                }
                for ad in contents(la) {
                    for bd in contents(lb) {
                        ctx.case();
                        ctx.nontrivial(1);
                        let (an, bn) = (Nat::from_digits(&ad), Nat::from_digits(&bd));
                        let (q, r) = an.divrem(&bn);
                        let (a, b) = (bu(&ad), bu(&bd));
                        let args = || vec![format!("a={}", an.to_hex()), format!("b={}", bn.to_hex())];
                        match call(ctx, || a.div_rem(&b)) {
                            Out::Ret((gq, gr)) => {
                                expect_nat(ctx, "div_rem.0", &args, Out::Ret(gq), &q);
                                expect_nat(ctx, "div_rem.1", &args, Out::Ret(gr), &r);
                            }
                            Out::Panic(m) => ctx.viol(format!("div_rem {}", args().join(" ")), "unexpected panic", args(), "(q,r)".into(), m),
                        }
                        ctx.compared(1);
                        if a.to_u64_digits() != an.digits() || b.to_u64_digits() != bn.digits() {
                            ctx.viol(format!("operand-modified div {}", args().join(" ")), "a borrowed operand was modified", args(), "unchanged".into(), "changed".into());
                        }
                    }
                }
            }
        }
        // constructed trial-quotient boundary dividends (precondition hi < divisor of the hardware divide)
        if ctx.mine(1 << 40) {
            let vs: Vec<Vec<u64>> = alpha::dense(&alpha::SIGMA8, 3).into_iter().filter(|d| d.len() >= 2 && d[d.len() - 1] >> 63 == 1).collect();
            for vd in vs.iter().step_by(if lite { 16 } else { 1 }) {
                let v = Nat::from_digits(vd);
                let vb = bu_nat(&v);
                for qd in [vec![alpha::M], vec![alpha::M, alpha::M], vec![alpha::H, 1], vec![1]] {
                    for r in [Nat::zero(), v.sub(&Nat::one()).unwrap()] {
                        ctx.case();
                        ctx.nontrivial(1);
                        let qn = Nat::from_digits(&qd);
                        let dvd = qn.mul(&v).add(&r);
                        let a = bu_nat(&dvd);
                        let args = || vec![format!("a={}", dvd.to_hex()), format!("b={}", v.to_hex())];
                        match call(ctx, || a.div_rem(&vb)) {
                            Out::Ret((gq, gr)) => {
                                expect_nat(ctx, "div_rem.0 (constructed)", &args, Out::Ret(gq), &qn);
                                expect_nat(ctx, "div_rem.1 (constructed)", &args, Out::Ret(gr), &r);
                            }
                            Out::Panic(m) => ctx.viol(format!("div_rem constructed {}", args().join(" ")), "unexpected panic", args(), "(q,r)".into(), m),
                        }
                    }
                }
            }
            ctx.sample(|| "dividends q*v+r for normalised v in Dense(S8,3): quotient digits at the estimate boundaries (hardware divide precondition, add-back)".to_string());
        }
    }
    // ---- text: unchecked byte-to-String conversions
    if ctx.space("TXT") {
        let mut vals: Vec<Nat> = (0..if lite { 40u64 } else { 300 }).map(Nat::from_u64).collect();
        vals.extend(alpha::dense(&alpha::SIGMA5, 2).iter().map(|d| Nat::from_digits(d)));
        if tier == Tier::Thorough && !lite {
            vals.extend(alpha::dense(&alpha::SIGMA5, 3).iter().map(|d| Nat::from_digits(d)));
        }
        if !lite {
            for l in [63usize, 64, 65, 66] {
                for p in [0usize, 2, 10] {
                    vals.push(Nat::from_digits(&alpha::pat(l, p)));
                }
            }
        }
        for (i, v) in vals.iter().enumerate() {
            if !ctx.mine(i as u64) {
                continue;
            }
            let u = bu_nat(v);
            let n = -BigInt::from(u.clone());
            for r in 2..=36u32 {
                ctx.case();
                ctx.nontrivial(1);
                match call(ctx, || u.to_str_radix(r)) {
                    Out::Ret(s) => {
                        check_ascii(ctx, "BigUint::to_str_radix", &s, r, false);
                        let back = call(ctx, || BigUint::from_str_radix(&s, r).ok().map(|y| nat_of(&y)));
                        ctx.compared(1);
                        if back != Out::Ret(Some(v.clone())) {
                            ctx.viol(format!("to_str_radix round trip radix={} v={}", r, v.to_hex()), "text does not parse back to the value", vec![], v.to_hex(), format!("{:?}", back));
                        }
                    }
                    Out::Panic(m) => ctx.viol(format!("to_str_radix radix={} v={}", r, v.to_hex()), "unexpected panic", vec![], "text".into(), m),
                }
                if !v.is_zero() {
                    if let Out::Ret(s) = call(ctx, || n.to_str_radix(r)) {
                        check_ascii(ctx, "BigInt::to_str_radix", &s, r, false);
                    }
                }
            }
            // radices outside 2..=36: the call must panic (C14's business); whatever it does, any String it
            // hands back must still be valid ASCII -- the unchecked conversion must never see other bytes
            let oor: Vec<u32> = if i < 4 || i % 37 == 0 { (37..=256u32).chain([0, 1, 257, 1000, u32::MAX]).collect() } else { vec![37, 128, 256] };
            for r in oor {
                ctx.case();
                for neg in [false, true] {
                    let out = if neg { call(ctx, || n.to_str_radix(r)) } else { call(ctx, || u.to_str_radix(r)) };
                    ctx.compared(1);
                    if let Out::Ret(s) = out {
                        let b = s.as_bytes();
                        if std::str::from_utf8(b).is_err() || !b.iter().all(|c| c.is_ascii_alphanumeric() || *c == b'-') {
                            ctx.viol(format!("to_str_radix radix={} v={}{}", r, if neg { "-" } else { "" }, v.to_hex()), "String built by the unchecked conversion holds bytes that are not ASCII digits/letters", vec![], "panic, or ASCII text".into(), format!("{:?}", &b[..b.len().min(40)]));
                        }
                    }
                }
            }
            ctx.case();
            let texts = call(ctx, || (format!("{}", u), format!("{:x}", u), format!("{:X}", n), format!("{:o}", u), format!("{:b}", n), format!("{:?}", n), format!("{:>+#70x}", n)));
            if let Out::Ret((d, x, ux, o, b, dbg, padded)) = texts {
                check_ascii(ctx, "Display", &d, 10, false);
                check_ascii(ctx, "LowerHex", &x, 16, false);
                check_ascii(ctx, "UpperHex", &ux, 16, true);
                check_ascii(ctx, "Octal", &o, 8, false);
                check_ascii(ctx, "Binary", &b, 2, false);
                // Debug output is not a radix text (its shape is not pinned): it must only be valid ASCII
                ctx.compared(1);
                if !dbg.is_ascii() {
                    ctx.viol(format!("Debug text v={}", v.to_hex()), "formatted text is not ASCII", vec![], "ASCII".into(), format!("{:?}", dbg.as_bytes().iter().take(40).collect::<Vec<_>>()));
                }
                ctx.compared(1);
                if !padded.is_ascii() {
                    ctx.viol(format!("padded format v={}", v.to_hex()), "formatted text is not ASCII", vec![], "ASCII".into(), padded);
                }
            }
            if i == 77 {
                ctx.sample(|| format!("v={}: to_str_radix for radix 2..=36 (both signs) and every out-of-range radix 37..=256,0,1,257,1000,2^32-1 (panic or ASCII), 7 formatter outputs, byte-wise ASCII validation", v.to_hex()));
            }
        }
    }
    // ---- random bits: the u32 view of the u64 buffer
    if ctx.space("RND") {
        use num_bigint::RandBigInt;
        let nmax = if lite { 130 } else { tier.pick(320u64, 640u64) };
        for n in 0..=nmax {
            if !ctx.mine(n) {
                continue;
            }
            for mode in 0..tier.pick(2u8, 3u8) {
                ctx.case();
                ctx.nontrivial(1);
                let mut rng = StreamRng { mode, ctr: 0 };
                let r = call(ctx, || rng.gen_biguint(n));
                ctx.compared(1);
                match r {
                    Out::Ret(x) => {
                        let v = nat_chk(ctx, "gen_biguint", &x);
                        if v.bits() > n || (mode == 0 && v.bits() != n) {
                            ctx.viol(format!("gen_biguint n={} mode={}", n, mode), "result does not fit the requested width (or the all-ones stream did not fill it)", vec![], format!("< 2^{}", n), v.to_hex());
                        }
                    }
                    Out::Panic(m) => ctx.viol(format!("gen_biguint n={} mode={}", n, mode), "unexpected panic", vec![], "value".into(), m),
                }
                let mut rng = StreamRng { mode, ctr: 0 };
                let r = call(ctx, || rng.gen_bigint(n));
                ctx.compared(1);
                if let Out::Ret(x) = r {
                    let v = int_chk(ctx, "gen_bigint", &x);
                    if v.mag.bits() > n {
                        ctx.viol(format!("gen_bigint n={} mode={}", n, mode), "result does not fit the requested width", vec![], format!("|x| < 2^{}", n), v.to_hex());
                    }
                }
            }
            if n == 97 {
                ctx.sample(|| "gen_biguint(97) / gen_bigint(97) on all-ones, counter and sparse streams: width, word count, canonical form".to_string());
            }
        }
    }
    #[cfg(feature = "guardalloc")]
    ctx.count("guarded_allocations", nbmc::guardalloc::ALLOCS.load(std::sync::atomic::Ordering::Relaxed));
}

fn main() {
    runner::main(SPEC, body)
}
