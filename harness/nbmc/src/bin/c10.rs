//! C10 -- every overloaded operator form agrees with the canonical big-by-big operation.
use nbmc::*;
use num_traits::{CheckedAdd, CheckedDiv, CheckedMul, CheckedSub, Pow};
use std::collections::BTreeSet;

const SPEC: Spec = Spec {
    id: "C10",
    engine: "E-prod (macro-instantiated matrix of operator forms x full product of pool operands and scalar extremes; in-process differential against the reference-by-reference operation, which is itself tied to refint)",
    rule: "for every instantiated form (counted in evidence: forms_instantiated) and every (big operand, scalar) of the pool x scalar-extreme product, the outcome class and value must equal those of the reference-by-reference big-by-big operation on the losslessly converted operands (both return equal canonical values, or both panic); that canonical result is compared with refint; non-trivial = scalar needs conversion (not 0/1) and big operand non-zero",
    assumptions: &[
        "operands: the 30-value magnitude pool (both signs for BigInt) and per-type scalar extremes {0,1,2,3,MAX,MAX-1,MIN,MIN+1,-1,-2, 2^31+-1, 2^32+-1, 2^63+-1, 2^64+-1 that fit}",
        "left shifts and pow use small amounts/exponents only (memory-exhausting operations are out of scope)",
        "the form matrix is what the harness macros can name; the number instantiated is reported, not assumed",
    ],
    bounds_quick: "arithmetic scalar forms: {BigUint x 6 unsigned, BigInt x 12 types} x {+,-,*,/,%} x 9 forms; scalar %= big for 12 types (value and reference); shifts 2 big types x 12 types x {<<,>>} x 6 forms + 5 forms on an owned operand with spare capacity; pow 2 big types x 6 types + BigUint exponent x 4 forms; big-by-big 8 operators x 6 forms on a 24^2 sub-pool; checked_*; Sum/Product over Big, &Big and each scalar type",
    bounds_thorough: "same matrix with the full 30^2 big-by-big pool and an extended scalar set (every power of two +-1 that fits the type)",
    hang_secs: 120,
    probes: None,
    max_workers: 16,
};

fn same_class<B: PartialEq>(a: &Out<B>, b: &Out<B>) -> bool {
    match (a, b) {
        (Out::Ret(x), Out::Ret(y)) => x == y,
        (Out::Panic(_), Out::Panic(_)) => true,
        _ => false,
    }
}
fn show<B: std::fmt::LowerHex>(a: &Out<B>) -> String {
    match a {
        Out::Ret(x) => format!("{:x}", x),
        Out::Panic(m) => format!("panic({})", m),
    }
}

/// The same value as an OWNED operand whose buffer has spare capacity (by-value and assign forms may then work in place).
trait Slack {
    fn slack(&self, want: usize) -> Self;
}
impl Slack for BigUint {
    fn slack(&self, want: usize) -> Self {
        nbmc::with_slack(self, want).0
    }
}
impl Slack for BigInt {
    fn slack(&self, want: usize) -> Self {
        BigInt::from_biguint(self.sign(), nbmc::with_slack(self.magnitude(), want).0)
    }
}

trait Canon {
    fn canon_ok(&self) -> bool;
}
impl Canon for BigUint {
    fn canon_ok(&self) -> bool {
        self.to_u64_digits().last() != Some(&0)
    }
}
impl Canon for BigInt {
    fn canon_ok(&self) -> bool {
        let (s, d) = self.to_u64_digits();
        d.last() != Some(&0) && ((s == Sign::NoSign) == d.is_empty())
    }
}

struct Forms {
    names: BTreeSet<String>,
}

fn cmp_form<B: PartialEq + std::fmt::LowerHex + Canon>(ctx: &mut Ctx, forms: &mut Forms, form: &str, args: &dyn Fn() -> Vec<String>, got: Out<B>, canon: &Out<B>) {
    ctx.compared(1);
    if !forms.names.contains(form) {
        forms.names.insert(form.to_string());
    }
    if let Out::Ret(x) = &got {
        if !x.canon_ok() {
            let a = args();
            ctx.viol(format!("noncanonical {} {}", form, a.join(" ")), "form returned a non-canonical value", a, "canonical".into(), show(&got));
            return;
        }
    }
    if let Out::Ret(x) = &got {
        ctx.outcome_str(&format!("{:x}", x));
    }
    if !same_class(&got, canon) {
        let a = args();
        ctx.viol(format!("{} {}", form, a.join(" ")), "operator form disagrees with the reference-by-reference operation on the converted operands", a, show(canon), show(&got));
    }
}

/// model outcome of a binary arithmetic operator on converted operands; None = must panic
fn model_arith(op: &str, a: &Int, b: &Int, unsigned: bool) -> Option<Int> {
    match op {
        "+" => Some(a.add(b)),
        "-" => {
            let r = a.sub(b);
            if unsigned && r.neg {
                None
            } else {
                Some(r)
            }
        }
        "*" => Some(a.mul(b)),
        "/" => {
            if b.is_zero() {
                None
            } else {
                Some(a.divrem_trunc(b).0)
            }
        }
        "%" => {
            if b.is_zero() {
                None
            } else {
                Some(a.divrem_trunc(b).1)
            }
        }
        "&" => Some(a.and(b)),
        "|" => Some(a.or(b)),
        "^" => Some(a.xor(b)),
        _ => unreachable!(),
    }
}

trait ToModel {
    fn to_model(&self) -> Int;
    const UNSIGNED: bool;
}
impl ToModel for BigUint {
    fn to_model(&self) -> Int {
        Int::from_nat(nat_of(self))
    }
    const UNSIGNED: bool = true;
}
impl ToModel for BigInt {
    fn to_model(&self) -> Int {
        int_of(self)
    }
    const UNSIGNED: bool = false;
}

fn tie_to_model<B: ToModel + std::fmt::LowerHex>(ctx: &mut Ctx, form: &str, args: &dyn Fn() -> Vec<String>, canon: &Out<B>, want: &Option<Int>) {
    ctx.compared(1);
    let ok = match (canon, want) {
        (Out::Ret(x), Some(w)) => &x.to_model() == w,
        (Out::Panic(_), None) => true,
        _ => false,
    };
    if !ok {
        let a = args();
        ctx.viol(format!("canonical {} {}", form, a.join(" ")), "the reference-by-reference operation itself disagrees with refint", a, format!("{:?}", want.as_ref().map(|w| w.to_hex())), show(canon));
    }
}

macro_rules! arith_scalar {
    ($ctx:expr, $forms:expr, $B:ty, $bn:expr, $T:ty, $tn:expr, $big:expr, $t:expr, $tm:expr; $( ($op:tt, $opa:tt, $on:expr) ),* ) => {{
        let ctx: &mut Ctx = $ctx;
        let forms: &mut Forms = $forms;
        let big: &$B = $big;
        let t: $T = $t;
        let tm: &Int = $tm;
        let tb: $B = <$B>::from(t);
        let bm = big.to_model();
        $(
        {
            ctx.case();
            if !bm.is_zero() && tm.mag.bits() > 1 { ctx.nontrivial(1); }
            let args = || vec![format!("big={:x}", big), format!("t={}{}", t, $tn)];
            let canon = call(ctx, || big $op &tb);
            let want = model_arith($on, &bm, tm, <$B as ToModel>::UNSIGNED);
            tie_to_model(ctx, concat!($bn, " &big", $on, "&conv(", $tn, ")"), &args, &canon, &want);
            let r = call(ctx, || big.clone() $op t);
            cmp_form(ctx, forms, concat!($bn, " big", $on, $tn), &args, r, &canon);
            let r = call(ctx, || big $op t);
            cmp_form(ctx, forms, concat!($bn, " &big", $on, $tn), &args, r, &canon);
            let r = call(ctx, || big.clone() $op &t);
            cmp_form(ctx, forms, concat!($bn, " big", $on, "&", $tn), &args, r, &canon);
            let r = call(ctx, || big $op &t);
            cmp_form(ctx, forms, concat!($bn, " &big", $on, "&", $tn), &args, r, &canon);
            let r = call(ctx, || { let mut x = big.clone(); x $opa t; x });
            cmp_form(ctx, forms, concat!($bn, " big", $on, "=", $tn), &args, r, &canon);
            // scalar on the left
            let canon_l = call(ctx, || &tb $op big);
            let want_l = model_arith($on, tm, &bm, <$B as ToModel>::UNSIGNED);
            tie_to_model(ctx, concat!($bn, " &conv(", $tn, ")", $on, "&big"), &args, &canon_l, &want_l);
            let r = call(ctx, || t $op big.clone());
            cmp_form(ctx, forms, concat!($bn, " ", $tn, $on, "big"), &args, r, &canon_l);
            let r = call(ctx, || t $op big);
            cmp_form(ctx, forms, concat!($bn, " ", $tn, $on, "&big"), &args, r, &canon_l);
            let r = call(ctx, || &t $op big.clone());
            cmp_form(ctx, forms, concat!($bn, " &", $tn, $on, "big"), &args, r, &canon_l);
            let r = call(ctx, || &t $op big);
            cmp_form(ctx, forms, concat!($bn, " &", $tn, $on, "&big"), &args, r, &canon_l);
        }
        )*
    }};
}

macro_rules! all_arith {
    ($ctx:expr, $forms:expr, $B:ty, $bn:expr, $T:ty, $tn:expr, $big:expr, $t:expr, $tm:expr) => {
        arith_scalar!($ctx, $forms, $B, $bn, $T, $tn, $big, $t, $tm; (+, +=, "+"), (-, -=, "-"), (*, *=, "*"), (/, /=, "/"), (%, %=, "%"))
    };
}

/// scalar %= big (value and reference), all 12 scalar types, BigUint only
macro_rules! rem_assign_scalar {
    ($ctx:expr, $forms:expr, $T:ty, $tn:expr, $big:expr, $t:expr, $tm:expr) => {{
        let ctx: &mut Ctx = $ctx;
        let forms: &mut Forms = $forms;
        let big: &BigUint = $big;
        let t: $T = $t;
        let tm: &Int = $tm;
        ctx.case();
        ctx.nontrivial(1);
        let args = || vec![format!("t={}{}", t, $tn), format!("big={:x}", big)];
        // canonical: BigInt(t) % BigInt(big), reference by reference
        let tb = BigInt::from(t);
        let bb = BigInt::from(big.clone());
        let canon = call(ctx, || &tb % &bb);
        let want = model_arith("%", tm, &Int::from_nat(nat_of(big)), false);
        tie_to_model(ctx, concat!("BigInt &conv(", $tn, ")%&conv(big)"), &args, &canon, &want);
        let r = call(ctx, || {
            let mut x = t;
            x %= big;
            BigInt::from(x)
        });
        cmp_form(ctx, forms, concat!($tn, " %= &BigUint"), &args, r, &canon);
        let r = call(ctx, || {
            let mut x = t;
            x %= big.clone();
            BigInt::from(x)
        });
        cmp_form(ctx, forms, concat!($tn, " %= BigUint"), &args, r, &canon);
    }};
}

macro_rules! shift_forms {
    ($ctx:expr, $forms:expr, $B:ty, $bn:expr, $T:ty, $tn:expr, $big:expr, $k:expr) => {{
        let ctx: &mut Ctx = $ctx;
        let forms: &mut Forms = $forms;
        let big: &$B = $big;
        let k: i128 = $k;
        if k >= <$T>::MIN as i128 && k <= <$T>::MAX as i128 {
            let t = k as $T;
            let bm = big.to_model();
            let args = || vec![format!("big={:x}", big), format!("k={}{}", k, $tn)];
            // >> (any amount)
            {
                ctx.case();
                ctx.nontrivial(1);
                let want = if k < 0 { None } else if k > 100_000 { Some(if bm.neg { Int::from_i64(-1) } else { Int::zero() }) } else { Some(bm.shr_floor(k as u64)) };
                let canon: Out<$B> = match &want { Some(_) => call(ctx, || big >> (k.min(u64::MAX as i128) as u64)), None => Out::Panic("negative".into()) };
                tie_to_model(ctx, concat!($bn, " &big>>u64"), &args, &canon, &want);
                let r = call(ctx, || big.clone() >> t);
                cmp_form(ctx, forms, concat!($bn, " big>>", $tn), &args, r, &canon);
                let r = call(ctx, || big >> t);
                cmp_form(ctx, forms, concat!($bn, " &big>>", $tn), &args, r, &canon);
                let r = call(ctx, || big.clone() >> &t);
                cmp_form(ctx, forms, concat!($bn, " big>>&", $tn), &args, r, &canon);
                let r = call(ctx, || big >> &t);
                cmp_form(ctx, forms, concat!($bn, " &big>>&", $tn), &args, r, &canon);
                let r = call(ctx, || { let mut x = big.clone(); x >>= t; x });
                cmp_form(ctx, forms, concat!($bn, " big>>=", $tn), &args, r, &canon);
                let r = call(ctx, || { let mut x = big.clone(); x >>= &t; x });
                cmp_form(ctx, forms, concat!($bn, " big>>=&", $tn), &args, r, &canon);
                let r = call(ctx, || big.slack(2 * (big.bits() as usize / 64) + 3) >> t);
                cmp_form(ctx, forms, concat!($bn, " big(slack)>>", $tn), &args, r, &canon);
                let r = call(ctx, || { let mut x = big.slack(2 * (big.bits() as usize / 64) + 3); x >>= t; x });
                cmp_form(ctx, forms, concat!($bn, " big(slack)>>=", $tn), &args, r, &canon);
            }
            if k <= 1000 {
                ctx.case();
                ctx.nontrivial(1);
                let want = if k < 0 { None } else { Some(bm.shl(k as u64)) };
                let canon: Out<$B> = match &want { Some(_) => call(ctx, || big << (k as u64)), None => Out::Panic("negative".into()) };
                tie_to_model(ctx, concat!($bn, " &big<<u64"), &args, &canon, &want);
                let r = call(ctx, || big.clone() << t);
                cmp_form(ctx, forms, concat!($bn, " big<<", $tn), &args, r, &canon);
                let r = call(ctx, || big << t);
                cmp_form(ctx, forms, concat!($bn, " &big<<", $tn), &args, r, &canon);
                let r = call(ctx, || big.clone() << &t);
                cmp_form(ctx, forms, concat!($bn, " big<<&", $tn), &args, r, &canon);
                let r = call(ctx, || big << &t);
                cmp_form(ctx, forms, concat!($bn, " &big<<&", $tn), &args, r, &canon);
                let r = call(ctx, || { let mut x = big.clone(); x <<= t; x });
                cmp_form(ctx, forms, concat!($bn, " big<<=", $tn), &args, r, &canon);
                let r = call(ctx, || { let mut x = big.clone(); x <<= &t; x });
                cmp_form(ctx, forms, concat!($bn, " big<<=&", $tn), &args, r, &canon);
                if k >= 0 {
                    // owned operand with room for the whole result: in-place shifting must not read what it has overwritten
                    let want = (big.bits() as usize + k as usize) / 64 + 3;
                    let r = call(ctx, || big.slack(want) << t);
                    cmp_form(ctx, forms, concat!($bn, " big(slack)<<", $tn), &args, r, &canon);
                    let r = call(ctx, || big.slack(want) << &t);
                    cmp_form(ctx, forms, concat!($bn, " big(slack)<<&", $tn), &args, r, &canon);
                    let r = call(ctx, || { let mut x = big.slack(want); x <<= t; x });
                    cmp_form(ctx, forms, concat!($bn, " big(slack)<<=", $tn), &args, r, &canon);
                }
            }
        }
    }};
}

macro_rules! pow_forms {
    ($ctx:expr, $forms:expr, $B:ty, $bn:expr, $T:ty, $tn:expr, $big:expr, $e:expr) => {{
        let ctx: &mut Ctx = $ctx;
        let forms: &mut Forms = $forms;
        let big: &$B = $big;
        let e: u64 = $e;
        if e <= <$T>::MAX as u64 {
            let t = e as $T;
            ctx.case();
            ctx.nontrivial(1);
            let bm = big.to_model();
            let args = || vec![format!("big={:x}", big), format!("e={}{}", e, $tn)];
            let eb = BigUint::from(e);
            let canon = call(ctx, || Pow::pow(big, &eb));
            let want = Some(bm.pow(e));
            tie_to_model(ctx, concat!($bn, " (&big).pow(&BigUint)"), &args, &canon, &want);
            let r = call(ctx, || Pow::pow(big.clone(), t));
            cmp_form(ctx, forms, concat!($bn, " big.pow(", $tn, ")"), &args, r, &canon);
            let r = call(ctx, || Pow::pow(big, t));
            cmp_form(ctx, forms, concat!($bn, " (&big).pow(", $tn, ")"), &args, r, &canon);
            let r = call(ctx, || Pow::pow(big.clone(), &t));
            cmp_form(ctx, forms, concat!($bn, " big.pow(&", $tn, ")"), &args, r, &canon);
            let r = call(ctx, || Pow::pow(big, &t));
            cmp_form(ctx, forms, concat!($bn, " (&big).pow(&", $tn, ")"), &args, r, &canon);
        }
    }};
}

macro_rules! bigbig {
    ($ctx:expr, $forms:expr, $B:ty, $bn:expr, $a:expr, $b:expr; $( ($op:tt, $opa:tt, $on:expr) ),* ) => {{
        let ctx: &mut Ctx = $ctx;
        let forms: &mut Forms = $forms;
        let a: &$B = $a;
        let b: &$B = $b;
        let am = a.to_model();
        let bm = b.to_model();
        $(
        {
            ctx.case();
            if !am.is_zero() && !bm.is_zero() { ctx.nontrivial(1); }
            let args = || vec![format!("a={:x}", a), format!("b={:x}", b)];
            let canon = call(ctx, || a $op b);
            let want = model_arith($on, &am, &bm, <$B as ToModel>::UNSIGNED);
            tie_to_model(ctx, concat!($bn, " &a", $on, "&b"), &args, &canon, &want);
            let r = call(ctx, || a.clone() $op b.clone());
            cmp_form(ctx, forms, concat!($bn, " a", $on, "b"), &args, r, &canon);
            let r = call(ctx, || a.clone() $op b);
            cmp_form(ctx, forms, concat!($bn, " a", $on, "&b"), &args, r, &canon);
            let r = call(ctx, || a $op b.clone());
            cmp_form(ctx, forms, concat!($bn, " &a", $on, "b"), &args, r, &canon);
            let r = call(ctx, || { let mut x = a.clone(); x $opa b.clone(); x });
            cmp_form(ctx, forms, concat!($bn, " a", $on, "=b"), &args, r, &canon);
            let r = call(ctx, || { let mut x = a.clone(); x $opa b; x });
            cmp_form(ctx, forms, concat!($bn, " a", $on, "=&b"), &args, r, &canon);
        }
        )*
    }};
}

fn scal_i128(thorough: bool) -> Vec<i128> {
    let mut v: Vec<i128> = vec![0, 1, 2, 3, -1, -2];
    for bits in [8u32, 16, 32, 64, 128] {
        let smax = if bits == 128 { i128::MAX } else { (1i128 << (bits - 1)) - 1 };
        let smin = if bits == 128 { i128::MIN } else { -(1i128 << (bits - 1)) };
        v.extend([smax, smax - 1, smin, smin + 1]);
        if bits < 128 {
            let umax = (1i128 << bits) - 1;
            v.extend([umax, umax - 1, umax + 1, umax + 2]);
        }
    }
    for k in [31u32, 32, 63, 64] {
        v.extend([(1i128 << k) - 1, (1i128 << k) + 1, -((1i128 << k) + 1)]);
    }
    if thorough {
        for k in 2..127u32 {
            v.extend([(1i128 << k) - 1, 1i128 << k, (1i128 << k) + 1, -(1i128 << k), -((1i128 << k) + 1)]);
        }
    }
    v.sort();
    v.dedup();
    v
}

macro_rules! with_scalar {
    // invoke $body!(T, "T", t, &Int) for the scalar value $v if it fits T
    ($v:expr, $T:ty, $tn:expr, |$t:ident, $tm:ident| $body:block) => {{
        if let Ok($t) = <$T>::try_from($v) {
            let $tm = Int::from_i128($v);
            $body
        }
    }};
}

fn body(ctx: &mut Ctx) {
    let tier = ctx.tier;
    let mut forms = Forms { names: BTreeSet::new() };
    let mut pool = alpha::pool_mags();
    // |MIN| of the narrow signed types (the wide ones are already in the pool)
    pool.extend([vec![0x80u64], vec![0x8000], vec![0x8000_0000], vec![0x7f], vec![0x81]]);
    let ubig: Vec<BigUint> = pool.iter().map(|d| bu(d)).collect();
    let mut ibig: Vec<BigInt> = Vec::new();
    for u in &ubig {
        ibig.push(BigInt::from(u.clone()));
        if !num_traits::Zero::is_zero(u) {
            ibig.push(-BigInt::from(u.clone()));
        }
    }
    let scal = scal_i128(tier == Tier::Thorough);
    let umax_extra: Vec<u128> = vec![u128::MAX, u128::MAX - 1, (1u128 << 127) + 1, 1u128 << 127];

    // ---- A-uint: BigUint with the six unsigned scalar types
    if ctx.space("A-uint") {
        for (i, big) in ubig.iter().enumerate() {
            if !ctx.mine(i as u64) {
                continue;
            }
            for &v in &scal {
                with_scalar!(v, u8, "u8", |t, tm| { all_arith!(ctx, &mut forms, BigUint, "BigUint", u8, "u8", big, t, &tm) });
                with_scalar!(v, u16, "u16", |t, tm| { all_arith!(ctx, &mut forms, BigUint, "BigUint", u16, "u16", big, t, &tm) });
                with_scalar!(v, u32, "u32", |t, tm| { all_arith!(ctx, &mut forms, BigUint, "BigUint", u32, "u32", big, t, &tm) });
                with_scalar!(v, u64, "u64", |t, tm| { all_arith!(ctx, &mut forms, BigUint, "BigUint", u64, "u64", big, t, &tm) });
                with_scalar!(v, usize, "usize", |t, tm| { all_arith!(ctx, &mut forms, BigUint, "BigUint", usize, "usize", big, t, &tm) });
                with_scalar!(v, u128, "u128", |t, tm| { all_arith!(ctx, &mut forms, BigUint, "BigUint", u128, "u128", big, t, &tm) });
            }
            for &t in &umax_extra {
                let tm = Int::from_nat(Nat::from_u128(t));
                all_arith!(ctx, &mut forms, BigUint, "BigUint", u128, "u128", big, t, &tm);
            }
            ctx.sample(|| format!("BigUint big={:x} x {} scalar values x 6 unsigned types x 5 operators x 9 forms", big, scal.len()));
        }
    }
    // ---- A-int: BigInt with all twelve scalar types
    if ctx.space("A-int") {
        for (i, big) in ibig.iter().enumerate() {
            if !ctx.mine(i as u64) {
                continue;
            }
            for &v in &scal {
                with_scalar!(v, u8, "u8", |t, tm| { all_arith!(ctx, &mut forms, BigInt, "BigInt", u8, "u8", big, t, &tm) });
                with_scalar!(v, u16, "u16", |t, tm| { all_arith!(ctx, &mut forms, BigInt, "BigInt", u16, "u16", big, t, &tm) });
                with_scalar!(v, u32, "u32", |t, tm| { all_arith!(ctx, &mut forms, BigInt, "BigInt", u32, "u32", big, t, &tm) });
                with_scalar!(v, u64, "u64", |t, tm| { all_arith!(ctx, &mut forms, BigInt, "BigInt", u64, "u64", big, t, &tm) });
                with_scalar!(v, usize, "usize", |t, tm| { all_arith!(ctx, &mut forms, BigInt, "BigInt", usize, "usize", big, t, &tm) });
                with_scalar!(v, u128, "u128", |t, tm| { all_arith!(ctx, &mut forms, BigInt, "BigInt", u128, "u128", big, t, &tm) });
                with_scalar!(v, i8, "i8", |t, tm| { all_arith!(ctx, &mut forms, BigInt, "BigInt", i8, "i8", big, t, &tm) });
                with_scalar!(v, i16, "i16", |t, tm| { all_arith!(ctx, &mut forms, BigInt, "BigInt", i16, "i16", big, t, &tm) });
                with_scalar!(v, i32, "i32", |t, tm| { all_arith!(ctx, &mut forms, BigInt, "BigInt", i32, "i32", big, t, &tm) });
                with_scalar!(v, i64, "i64", |t, tm| { all_arith!(ctx, &mut forms, BigInt, "BigInt", i64, "i64", big, t, &tm) });
                with_scalar!(v, isize, "isize", |t, tm| { all_arith!(ctx, &mut forms, BigInt, "BigInt", isize, "isize", big, t, &tm) });
                with_scalar!(v, i128, "i128", |t, tm| { all_arith!(ctx, &mut forms, BigInt, "BigInt", i128, "i128", big, t, &tm) });
            }
            for &t in &umax_extra {
                let tm = Int::from_nat(Nat::from_u128(t));
                all_arith!(ctx, &mut forms, BigInt, "BigInt", u128, "u128", big, t, &tm);
            }
            ctx.sample(|| format!("BigInt big={:x} x {} scalar values x 12 types x 5 operators x 9 forms", big, scal.len()));
        }
    }
    // ---- R: scalar %= BigUint
    if ctx.space("R-scalar-rem-assign") {
        for (i, big) in ubig.iter().enumerate() {
            if !ctx.mine(i as u64) {
                continue;
            }
            for &v in &scal {
                with_scalar!(v, u8, "u8", |t, tm| { rem_assign_scalar!(ctx, &mut forms, u8, "u8", big, t, &tm) });
                with_scalar!(v, u16, "u16", |t, tm| { rem_assign_scalar!(ctx, &mut forms, u16, "u16", big, t, &tm) });
                with_scalar!(v, u32, "u32", |t, tm| { rem_assign_scalar!(ctx, &mut forms, u32, "u32", big, t, &tm) });
                with_scalar!(v, u64, "u64", |t, tm| { rem_assign_scalar!(ctx, &mut forms, u64, "u64", big, t, &tm) });
                with_scalar!(v, usize, "usize", |t, tm| { rem_assign_scalar!(ctx, &mut forms, usize, "usize", big, t, &tm) });
                with_scalar!(v, u128, "u128", |t, tm| { rem_assign_scalar!(ctx, &mut forms, u128, "u128", big, t, &tm) });
                with_scalar!(v, i8, "i8", |t, tm| { rem_assign_scalar!(ctx, &mut forms, i8, "i8", big, t, &tm) });
                with_scalar!(v, i16, "i16", |t, tm| { rem_assign_scalar!(ctx, &mut forms, i16, "i16", big, t, &tm) });
                with_scalar!(v, i32, "i32", |t, tm| { rem_assign_scalar!(ctx, &mut forms, i32, "i32", big, t, &tm) });
                with_scalar!(v, i64, "i64", |t, tm| { rem_assign_scalar!(ctx, &mut forms, i64, "i64", big, t, &tm) });
                with_scalar!(v, isize, "isize", |t, tm| { rem_assign_scalar!(ctx, &mut forms, isize, "isize", big, t, &tm) });
                with_scalar!(v, i128, "i128", |t, tm| { rem_assign_scalar!(ctx, &mut forms, i128, "i128", big, t, &tm) });
            }
            ctx.sample(|| format!("scalar %= BigUint {:x} for 12 scalar types (value and reference)", big));
        }
    }
    // ---- S: shifts
    if ctx.space("S-shifts") {
        let amounts: Vec<i128> = vec![0, 1, 2, 31, 32, 63, 64, 65, 127, 128, 200, 255, 1000, 32767, 65535, u32::MAX as i128, i64::MAX as i128, u64::MAX as i128, i128::MAX, -1, -2, i8::MIN as i128, i32::MIN as i128, i128::MIN];
        for (i, big) in ibig.iter().enumerate() {
            if !ctx.mine(i as u64) {
                continue;
            }
            let ub = big.to_biguint();
            for &k in &amounts {
                macro_rules! both {
                    ($T:ty, $tn:expr) => {{
                        shift_forms!(ctx, &mut forms, BigInt, "BigInt", $T, $tn, big, k);
                        if let Some(u) = &ub {
                            shift_forms!(ctx, &mut forms, BigUint, "BigUint", $T, $tn, u, k);
                        }
                    }};
                }
                both!(u8, "u8");
                both!(u16, "u16");
                both!(u32, "u32");
                both!(u64, "u64");
                both!(usize, "usize");
                both!(u128, "u128");
                both!(i8, "i8");
                both!(i16, "i16");
                both!(i32, "i32");
                both!(i64, "i64");
                both!(isize, "isize");
                both!(i128, "i128");
            }
            ctx.sample(|| format!("big={:x} x {} shift amounts x 12 types x (<<,>>) x 6 forms", big, amounts.len()));
        }
    }
    // ---- P: pow forms
    if ctx.space("P-pow") {
        for (i, big) in ibig.iter().enumerate() {
            if !ctx.mine(i as u64) {
                continue;
            }
            if big.bits() > 64 * 6 {
                continue;
            }
            let ub = big.to_biguint();
            for e in [0u64, 1, 2, 3, 7, 10] {
                macro_rules! both {
                    ($T:ty, $tn:expr) => {{
                        pow_forms!(ctx, &mut forms, BigInt, "BigInt", $T, $tn, big, e);
                        if let Some(u) = &ub {
                            pow_forms!(ctx, &mut forms, BigUint, "BigUint", $T, $tn, u, e);
                        }
                    }};
                }
                both!(u8, "u8");
                both!(u16, "u16");
                both!(u32, "u32");
                both!(u64, "u64");
                both!(usize, "usize");
                both!(u128, "u128");
                // BigUint exponent by value / reference
                let eb = BigUint::from(e);
                let canon = call(ctx, || Pow::pow(big, &eb));
                let args = || vec![format!("big={:x}", big), format!("e={}", e)];
                let r = call(ctx, || Pow::pow(big.clone(), eb.clone()));
                cmp_form(ctx, &mut forms, "BigInt big.pow(BigUint)", &args, r, &canon);
                let r = call(ctx, || Pow::pow(big, eb.clone()));
                cmp_form(ctx, &mut forms, "BigInt (&big).pow(BigUint)", &args, r, &canon);
                let r = call(ctx, || Pow::pow(big.clone(), &eb));
                cmp_form(ctx, &mut forms, "BigInt big.pow(&BigUint)", &args, r, &canon);
                if e <= u32::MAX as u64 {
                    let r = call(ctx, || big.pow(e as u32));
                    cmp_form(ctx, &mut forms, "BigInt inherent pow(u32)", &args, r, &canon);
                }
                if let Some(u) = &ub {
                    let canon = call(ctx, || Pow::pow(u, &eb));
                    let r = call(ctx, || Pow::pow(u.clone(), eb.clone()));
                    cmp_form(ctx, &mut forms, "BigUint big.pow(BigUint)", &args, r, &canon);
                    let r = call(ctx, || Pow::pow(u, eb.clone()));
                    cmp_form(ctx, &mut forms, "BigUint (&big).pow(BigUint)", &args, r, &canon);
                    let r = call(ctx, || Pow::pow(u.clone(), &eb));
                    cmp_form(ctx, &mut forms, "BigUint big.pow(&BigUint)", &args, r, &canon);
                    let r = call(ctx, || u.pow(e as u32));
                    cmp_form(ctx, &mut forms, "BigUint inherent pow(u32)", &args, r, &canon);
                }
            }
            ctx.sample(|| format!("big={:x} x exponents {{0,1,2,3,7,10}} x 6 exponent types + BigUint exponent x 4 forms", big));
        }
    }
    // ---- B: big-by-big forms
    if ctx.space("B-bigbig") {
        let step = tier.pick(1usize, 1usize);
        let lim = tier.pick(24usize, 30usize);
        let sub: Vec<usize> = (0..pool.len()).step_by(step).take(lim).collect();
        let mut o = 0u64;
        for &i in &sub {
            for &j in &sub {
                let take = ctx.mine(o);
                o += 1;
                if !take {
                    continue;
                }
                bigbig!(ctx, &mut forms, BigUint, "BigUint", &ubig[i], &ubig[j]; (+, +=, "+"), (-, -=, "-"), (*, *=, "*"), (/, /=, "/"), (%, %=, "%"), (&, &=, "&"), (|, |=, "|"), (^, ^=, "^"));
                let (ap, bp) = (BigInt::from(ubig[i].clone()), BigInt::from(ubig[j].clone()));
                for (x, y) in [(ap.clone(), bp.clone()), (-ap.clone(), bp.clone()), (ap.clone(), -bp.clone()), (-ap.clone(), -bp.clone())] {
                    bigbig!(ctx, &mut forms, BigInt, "BigInt", &x, &y; (+, +=, "+"), (-, -=, "-"), (*, *=, "*"), (/, /=, "/"), (%, %=, "%"), (&, &=, "&"), (|, |=, "|"), (^, ^=, "^"));
                    // checked_*
                    let args = || vec![format!("a={:x}", x), format!("b={:x}", y)];
                    let am = int_of(&x);
                    let bm = int_of(&y);
                    for (name, got, want) in [
                        ("BigInt checked_add", call(ctx, || x.checked_add(&y)), model_arith("+", &am, &bm, false)),
                        ("BigInt checked_sub", call(ctx, || x.checked_sub(&y)), model_arith("-", &am, &bm, false)),
                        ("BigInt checked_mul", call(ctx, || x.checked_mul(&y)), model_arith("*", &am, &bm, false)),
                        ("BigInt checked_div", call(ctx, || x.checked_div(&y)), model_arith("/", &am, &bm, false)),
                        // the Checked* trait impls are separate copies from the inherent methods (method syntax picks the inherent ones)
                        ("CheckedAdd for BigInt", call(ctx, || num_traits::CheckedAdd::checked_add(&x, &y)), model_arith("+", &am, &bm, false)),
                        ("CheckedSub for BigInt", call(ctx, || num_traits::CheckedSub::checked_sub(&x, &y)), model_arith("-", &am, &bm, false)),
                        ("CheckedMul for BigInt", call(ctx, || num_traits::CheckedMul::checked_mul(&x, &y)), model_arith("*", &am, &bm, false)),
                        ("CheckedDiv for BigInt", call(ctx, || num_traits::CheckedDiv::checked_div(&x, &y)), model_arith("/", &am, &bm, false)),
                    ] {
                        ctx.compared(1);
                        forms.names.insert(name.to_string());
                        let ok = match (&got, &want) {
                            (Out::Ret(Some(g)), Some(w)) => &int_of(g) == w,
                            (Out::Ret(None), None) => true,
                            _ => false,
                        };
                        if !ok {
                            ctx.viol(format!("{} {}", name, args().join(" ")), "checked_* disagrees with the operator (Some(exact) / None in the failure case, never a panic)", args(), format!("{:?}", want.map(|w| w.to_hex())), format!("{:?}", got));
                        }
                    }
                }
                let (a, b) = (&ubig[i], &ubig[j]);
                let am = Int::from_nat(nat_of(a));
                let bm = Int::from_nat(nat_of(b));
                let args = || vec![format!("a={:x}", a), format!("b={:x}", b)];
                for (name, got, want) in [
                    ("BigUint checked_add", call(ctx, || a.checked_add(b)), model_arith("+", &am, &bm, true)),
                    ("BigUint checked_sub", call(ctx, || a.checked_sub(b)), model_arith("-", &am, &bm, true)),
                    ("BigUint checked_mul", call(ctx, || a.checked_mul(b)), model_arith("*", &am, &bm, true)),
                    ("BigUint checked_div", call(ctx, || a.checked_div(b)), model_arith("/", &am, &bm, true)),
                ] {
                    ctx.compared(1);
                    forms.names.insert(name.to_string());
                    let ok = match (&got, &want) {
                        (Out::Ret(Some(g)), Some(w)) => nat_of(g) == w.mag,
                        (Out::Ret(None), None) => true,
                        _ => false,
                    };
                    if !ok {
                        ctx.viol(format!("{} {}", name, args().join(" ")), "checked_* disagrees with the operator", args(), format!("{:?}", want.map(|w| w.to_hex())), format!("{:?}", got));
                    }
                }
                if i == j {
                    ctx.sample(|| format!("a=+-{:x} b=+-{:x}: 8 operators x 6 forms for BigUint and (4 sign pairs) BigInt, checked_*", a, b));
                }
            }
        }
    }
    // ---- I: Sum / Product over iterators
    if ctx.space("I-sum-product") && ctx.mine(0) {
        for w in 0..pool.len() - 3 {
            ctx.case();
            ctx.nontrivial(1);
            let us: Vec<BigUint> = ubig[w..w + 4].to_vec();
            let is: Vec<BigInt> = us.iter().enumerate().map(|(k, u)| if k % 2 == 1 { -BigInt::from(u.clone()) } else { BigInt::from(u.clone()) }).collect();
            let mut msum = Int::zero();
            let mut mprod = Int::from_i64(1);
            let mut isum = Int::zero();
            let mut iprod = Int::from_i64(1);
            for (k, u) in us.iter().enumerate() {
                let n = Int::from_nat(nat_of(u));
                msum = msum.add(&n);
                mprod = mprod.mul(&n);
                let s = if k % 2 == 1 { n.neg() } else { n };
                isum = isum.add(&s);
                iprod = iprod.mul(&s);
            }
            let args = || vec![format!("window={}", w)];
            let r = call(ctx, || us.iter().sum::<BigUint>());
            expect_nat(ctx, "Sum<&BigUint>", &args, r, &msum.mag);
            let r = call(ctx, || us.iter().cloned().sum::<BigUint>());
            expect_nat(ctx, "Sum<BigUint>", &args, r, &msum.mag);
            let r = call(ctx, || us.iter().product::<BigUint>());
            expect_nat(ctx, "Product<&BigUint>", &args, r, &mprod.mag);
            let r = call(ctx, || us.iter().cloned().product::<BigUint>());
            expect_nat(ctx, "Product<BigUint>", &args, r, &mprod.mag);
            let r = call(ctx, || is.iter().sum::<BigInt>());
            expect_int(ctx, "Sum<&BigInt>", &args, r, &isum);
            let r = call(ctx, || is.iter().cloned().sum::<BigInt>());
            expect_int(ctx, "Sum<BigInt>", &args, r, &isum);
            let r = call(ctx, || is.iter().product::<BigInt>());
            expect_int(ctx, "Product<&BigInt>", &args, r, &iprod);
            let r = call(ctx, || is.iter().cloned().product::<BigInt>());
            expect_int(ctx, "Product<BigInt>", &args, r, &iprod);
            for n in ["Sum<&BigUint>", "Sum<BigUint>", "Product<&BigUint>", "Product<BigUint>", "Sum<&BigInt>", "Sum<BigInt>", "Product<&BigInt>", "Product<BigInt>"] {
                forms.names.insert(n.to_string());
            }
        }
        // scalar iterators
        macro_rules! scal_iter {
            ($T:ty, $tn:expr, $vals:expr) => {{
                ctx.case();
                let vals: Vec<$T> = $vals;
                let mut s = Int::zero();
                let mut p = Int::from_i64(1);
                for &v in &vals {
                    s = s.add(&Int::from_i128(v as i128));
                    p = p.mul(&Int::from_i128(v as i128));
                }
                let args = || vec![format!("{:?}", vals)];
                let r = call(ctx, || vals.iter().cloned().sum::<BigInt>());
                expect_int(ctx, concat!("Sum<", $tn, "> for BigInt"), &args, r, &s);
                let r = call(ctx, || vals.iter().sum::<BigInt>());
                expect_int(ctx, concat!("Sum<&", $tn, "> for BigInt"), &args, r, &s);
                let r = call(ctx, || vals.iter().cloned().product::<BigInt>());
                expect_int(ctx, concat!("Product<", $tn, "> for BigInt"), &args, r, &p);
                let r = call(ctx, || vals.iter().product::<BigInt>());
                expect_int(ctx, concat!("Product<&", $tn, "> for BigInt"), &args, r, &p);
                forms.names.insert(concat!("Sum<", $tn, "> for BigInt").to_string());
                forms.names.insert(concat!("Sum<&", $tn, "> for BigInt").to_string());
                forms.names.insert(concat!("Product<", $tn, "> for BigInt").to_string());
                forms.names.insert(concat!("Product<&", $tn, "> for BigInt").to_string());
            }};
        }
        macro_rules! uscal_iter {
            ($T:ty, $tn:expr, $vals:expr) => {{
                ctx.case();
                let vals: Vec<$T> = $vals;
                let mut s = Nat::zero();
                let mut p = Nat::one();
                for &v in &vals {
                    s = s.add(&Nat::from_u128(v as u128));
                    p = p.mul(&Nat::from_u128(v as u128));
                }
                let args = || vec![format!("{:?}", vals)];
                let r = call(ctx, || vals.iter().cloned().sum::<BigUint>());
                expect_nat(ctx, concat!("Sum<", $tn, "> for BigUint"), &args, r, &s);
                let r = call(ctx, || vals.iter().sum::<BigUint>());
                expect_nat(ctx, concat!("Sum<&", $tn, "> for BigUint"), &args, r, &s);
                let r = call(ctx, || vals.iter().cloned().product::<BigUint>());
                expect_nat(ctx, concat!("Product<", $tn, "> for BigUint"), &args, r, &p);
                let r = call(ctx, || vals.iter().product::<BigUint>());
                expect_nat(ctx, concat!("Product<&", $tn, "> for BigUint"), &args, r, &p);
                forms.names.insert(concat!("Sum<", $tn, "> for BigUint").to_string());
                forms.names.insert(concat!("Sum<&", $tn, "> for BigUint").to_string());
                forms.names.insert(concat!("Product<", $tn, "> for BigUint").to_string());
                forms.names.insert(concat!("Product<&", $tn, "> for BigUint").to_string());
            }};
        }
        scal_iter!(i8, "i8", vec![i8::MIN, -1, i8::MAX, 3]);
        scal_iter!(i16, "i16", vec![i16::MIN, -1, i16::MAX, 3]);
        scal_iter!(i32, "i32", vec![i32::MIN, -1, i32::MAX, 3]);
        scal_iter!(i64, "i64", vec![i64::MIN, -1, i64::MAX, 3]);
        scal_iter!(isize, "isize", vec![isize::MIN, -1, isize::MAX, 3]);
        scal_iter!(i128, "i128", vec![i128::MIN + 1, -1, i128::MAX, 3]);
        scal_iter!(u8, "u8", vec![u8::MAX, 1, u8::MAX, 3]);
        scal_iter!(u32, "u32", vec![u32::MAX, 1, u32::MAX, 3]);
        scal_iter!(u64, "u64", vec![u64::MAX, 1, u64::MAX, 3]);
        uscal_iter!(u8, "u8", vec![u8::MAX, 1, u8::MAX, 3]);
        uscal_iter!(u16, "u16", vec![u16::MAX, 1, u16::MAX, 3]);
        uscal_iter!(u32, "u32", vec![u32::MAX, 1, u32::MAX, 3]);
        uscal_iter!(u64, "u64", vec![u64::MAX, 1, u64::MAX, 3]);
        uscal_iter!(usize, "usize", vec![usize::MAX, 1, usize::MAX, 3]);
        uscal_iter!(u128, "u128", vec![u128::MAX, 1, u128::MAX, 3]);
        // empty iterators: sum = 0, product = 1
        let r = call(ctx, || Vec::<BigUint>::new().into_iter().sum::<BigUint>());
        expect_nat(ctx, "Sum over empty", &|| vec![], r, &Nat::zero());
        let r = call(ctx, || Vec::<BigInt>::new().into_iter().product::<BigInt>());
        expect_int(ctx, "Product over empty", &|| vec![], r, &Int::from_i64(1));
        ctx.sample(|| "Sum/Product over sliding windows of the pool (Big and &Big items) and over scalar iterators of each type".to_string());
    }
    // worker 0 owns the sum/product space and therefore sees every form
    ctx.count_max("max.forms_instantiated", forms.names.len() as u64);
}

fn main() {
    runner::main(SPEC, body)
}
