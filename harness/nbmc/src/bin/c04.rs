//! C04 -- equal integers are indistinguishable: Eq, Ord, Hash and exports follow the value.
//!
//! E-hist: explicit-state search (stateright BFS) over histories of in-place public operations on
//! one live BigInt / BigUint.  `next_state` rebuilds the real object by replaying the history
//! (capacity cannot be set through the public API) and applies the real method; the model value
//! (refint) is advanced alongside.  The state key is the complete private representation
//! (sign, digits incl. trailing zeros, capacity -- read through the verif_probe raw view), the
//! model value and the depth, so merging two states is exact: they are the same Rust value.
//! E-prod: constructor / generator families compared with a freshly built canonical object.
use nbmc::*;
use num_bigint::verif_probe::{raw_bigint, raw_biguint};
use stateright::{Checker, HasDiscoveries, Model, Property};
use std::cmp::Ordering;
use std::collections::hash_map::DefaultHasher;
use std::hash::{Hash, Hasher};
use std::sync::atomic::{AtomicU64, Ordering as AO};
use std::sync::Mutex;

const SPEC: Spec = Spec {
    id: "C04",
    engine: "E-hist (stateright BFS over in-place operation histories on the real objects) + E-prod (constructor/generator families)",
    rule: "states = distinct (private representation, model value, depth) triples reached by histories of in-place public operations from every initial construction; every state is observed through Eq/Ord/Hash/exports and compared with a freshly built canonical object of the model value; non-trivial = reached by at least one mutation and multi-digit or capacity-slack (capacity > len)",
    assumptions: &[
        "depth-bounded: histories of at most D in-place operations from each initial construction; operand pool fixed (9 operands)",
        "states whose magnitude exceeds 20 digits are observed but not expanded",
        "std DefaultHasher (SipHash with fixed keys) stands for 'hash identically'",
        "quickcheck Gen::new (entropy-seeded) is not called; Gen::from_size_and_seed is enumerated instead",
    ],
    bounds_quick: "BigInt and BigUint models: depth 3 from all initial constructions (13 values x 5 construction ways (incl. small and large slack capacity) + inconsistent sign/magnitude requests), ~75 actions per state; generators: arbitrary over all byte strings {00,01,ff}^<=8, quickcheck (size<=8, seed<1024), shrink of the pool, serde_json sequences {0,1,2^32-1}^<=6 x signs, rand word streams {0,1,2^31,2^32-1}^<=3 x bit sizes/bounds; constructors in 13 radices x zero paddings up to 130 digits; G-results: (Dense(S5,3)+16 longer)^2 x 41 BigUint operations (operators, gcd/lcm, modpow, modinv, pow, roots, shifts, multiple-of) and 57^2 signed values x 47 BigInt operations, every result observed",
    bounds_thorough: "BigInt and BigUint models: depth 5 (digit cap 20; ~4.6*10^7 states, ~8 min, 4.3 GB); generators: arbitrary over {00,01,ff}^<=10, quickcheck (size<=8, seed<4096), serde_json sequences ^<=8, rand word streams ^<=5",
    hang_secs: 120,
    probes: None,
    max_workers: 1,
};

fn hash_of<T: Hash>(x: &T) -> u64 {
    let mut h = DefaultHasher::new();
    x.hash(&mut h);
    h.finish()
}

// ---------------------------------------------------------------- observation oracles

fn ref_points() -> Vec<Int> {
    vec![Int::zero(), Int::from_i64(1), Int::from_i64(-1), Int::new(false, Nat::from_digits(&[alpha::M])), Int::new(true, Nat::from_digits(&[0, 1])), Int::new(false, Nat::from_digits(&[alpha::M, alpha::M])), Int::new(true, Nat::from_digits(&[1, 0, 1]))]
}

/// All observations of a BigInt against the model value; None = indistinguishable from a fresh
/// canonical object of the same value.
fn observe_int(x: &BigInt, v: &Int, refs: &[(Int, BigInt)]) -> Option<String> {
    let (s, d) = x.to_u64_digits();
    if d.last() == Some(&0) {
        return Some(format!("to_u64_digits ends in a zero digit: {:x?}", d));
    }
    let zero = d.is_empty();
    if (s == Sign::NoSign) != zero || (x.sign() == Sign::NoSign) != x.magnitude().bits().eq(&0) {
        return Some(format!("sign {:?} inconsistent with magnitude {:x?}", s, d));
    }
    let got = Int::new(s == Sign::Minus, Nat::from_digits(&d));
    if &got != v {
        return Some(format!("value {} differs from model {}", got.to_hex(), v.to_hex()));
    }
    let fresh = bi_int(v);
    if !(x == &fresh) || !(&fresh == x) {
        return Some("x != fresh canonical object of the same value".into());
    }
    if x.cmp(&fresh) != Ordering::Equal || x.partial_cmp(&fresh) != Some(Ordering::Equal) {
        return Some("cmp(x, fresh) != Equal".into());
    }
    if hash_of(x) != hash_of(&fresh) {
        return Some("hash(x) != hash(fresh)".into());
    }
    if x.to_bytes_le() != fresh.to_bytes_le() || x.to_bytes_be() != fresh.to_bytes_be() {
        return Some("to_bytes differ".into());
    }
    if x.to_signed_bytes_le() != fresh.to_signed_bytes_le() {
        return Some("to_signed_bytes_le differ".into());
    }
    if x.to_u32_digits() != fresh.to_u32_digits() {
        return Some("to_u32_digits differ".into());
    }
    let t = x.to_str_radix(10);
    if t != fresh.to_str_radix(10) || x.to_str_radix(16) != fresh.to_str_radix(16) || format!("{}", x) != t || format!("{:?}", x) != format!("{:?}", fresh) {
        return Some("text differs".into());
    }
    if x.bits() != fresh.bits() || x.is_positive_() != fresh.is_positive_() {
        return Some("bits/sign queries differ".into());
    }
    for (rv, rb) in refs {
        let want = v.cmp(rv);
        if x.cmp(rb) != want || rb.cmp(x) != want.reverse() {
            return Some(format!("cmp with {} is not numerical order", rv.to_hex()));
        }
        if (x < rb) != (want == Ordering::Less) || (x >= rb) != (want != Ordering::Less) || (x == rb) != (want == Ordering::Equal) {
            return Some(format!("< / >= / == with {} disagree with numerical order", rv.to_hex()));
        }
        let mx = std::cmp::max(x.clone(), rb.clone());
        let wantmax = if want == Ordering::Less { rb } else { x };
        if &mx != wantmax {
            return Some(format!("max with {} wrong", rv.to_hex()));
        }
    }
    None
}
trait IsPos {
    fn is_positive_(&self) -> bool;
}
impl IsPos for BigInt {
    fn is_positive_(&self) -> bool {
        self.sign() == Sign::Plus
    }
}

fn observe_uint(x: &BigUint, v: &Nat, refs: &[(Nat, BigUint)]) -> Option<String> {
    let d = x.to_u64_digits();
    if d.last() == Some(&0) {
        return Some(format!("to_u64_digits ends in a zero digit: {:x?}", d));
    }
    let got = Nat::from_digits(&d);
    if &got != v {
        return Some(format!("value {} differs from model {}", got.to_hex(), v.to_hex()));
    }
    let fresh = bu_nat(v);
    if !(x == &fresh) || !(&fresh == x) {
        return Some("x != fresh canonical object of the same value".into());
    }
    if x.cmp(&fresh) != Ordering::Equal || x.partial_cmp(&fresh) != Some(Ordering::Equal) {
        return Some("cmp(x, fresh) != Equal".into());
    }
    if hash_of(x) != hash_of(&fresh) {
        return Some("hash(x) != hash(fresh)".into());
    }
    if x.to_bytes_le() != fresh.to_bytes_le() || x.to_bytes_be() != fresh.to_bytes_be() {
        return Some("to_bytes differ".into());
    }
    if x.to_u32_digits() != fresh.to_u32_digits() || x.iter_u32_digits().collect::<Vec<_>>() != fresh.to_u32_digits() || x.iter_u64_digits().collect::<Vec<_>>() != d {
        return Some("digit exports differ".into());
    }
    let t = x.to_str_radix(10);
    if t != fresh.to_str_radix(10) || x.to_str_radix(16) != fresh.to_str_radix(16) || format!("{}", x) != t || format!("{:x}", x) != x.to_str_radix(16) {
        return Some("text differs".into());
    }
    if x.bits() != v.bits() || x.count_ones() != v.count_ones() || x.trailing_zeros() != v.trailing_zeros() {
        return Some("bit queries differ".into());
    }
    use num_traits::{One, Zero};
    if x.is_zero() != v.is_zero() || x.is_one() != v.is_one() {
        return Some("is_zero/is_one differ".into());
    }
    for (rv, rb) in refs {
        let want = v.cmp(rv);
        if x.cmp(rb) != want || rb.cmp(x) != want.reverse() {
            return Some(format!("cmp with {} is not numerical order", rv.to_hex()));
        }
        if (x < rb) != (want == Ordering::Less) || (x == rb) != (want == Ordering::Equal) {
            return Some(format!("< / == with {} disagree with numerical order", rv.to_hex()));
        }
    }
    None
}

// ---------------------------------------------------------------- BigInt history model

fn enc_hist(init: u16, hist: &[Act]) -> String {
    let codes: Vec<String> = hist
        .iter()
        .map(|a| match a {
            Act::Op(o, i) => format!("O{}.{}", o, i),
            Act::Shl(s) => format!("L{}", s),
            Act::Shr(s) => format!("R{}", s),
            Act::ShlRef(s) => format!("l{}", s),
            Act::ShrRef(s) => format!("r{}", s),
            Act::SetBit(b, v) => format!("B{}.{}", b, *v as u8),
            Act::SetZero => "Z".to_string(),
            Act::SetOne => "I".to_string(),
            Act::CloneFrom(i) => format!("C{}", i),
            Act::AssignSlice(s, l) => format!("A{}.{}", s, l),
            Act::Neg => "N".to_string(),
            Act::Not => "T".to_string(),
        })
        .collect();
    format!("init={} acts={}", init, codes.join(","))
}
fn dec_hist(key: &str) -> Option<(u16, Vec<Act>)> {
    let init: u16 = key.split("init=").nth(1)?.split_whitespace().next()?.parse().ok()?;
    let acts = key.split("acts=").nth(1)?.split_whitespace().next().unwrap_or("");
    let mut out = Vec::new();
    for c in acts.split(',').filter(|c| !c.is_empty()) {
        let (k, rest) = c.split_at(1);
        let two = |r: &str| -> Option<(u32, u32)> {
            let (a, b) = r.split_once('.')?;
            Some((a.parse().ok()?, b.parse().ok()?))
        };
        out.push(match k {
            "O" => {
                let (a, b) = two(rest)?;
                Act::Op(a as u8, b as u8)
            }
            "L" => Act::Shl(rest.parse().ok()?),
            "R" => Act::Shr(rest.parse().ok()?),
            "l" => Act::ShlRef(rest.parse().ok()?),
            "r" => Act::ShrRef(rest.parse().ok()?),
            "B" => {
                let (a, b) = two(rest)?;
                Act::SetBit(a, b == 1)
            }
            "Z" => Act::SetZero,
            "I" => Act::SetOne,
            "C" => Act::CloneFrom(rest.parse().ok()?),
            "A" => {
                let (a, b) = two(rest)?;
                Act::AssignSlice(a as u8, b as u8)
            }
            "N" => Act::Neg,
            "T" => Act::Not,
            _ => return None,
        });
    }
    Some((init, out))
}

#[derive(Clone, Copy, Debug, PartialEq, Eq, Hash)]
enum Act {
    Op(u8, u8), // operator, operand index
    Shl(u32),
    Shr(u32),
    /// the shift-assign forms taking the amount by reference (`x <<= &k`, `x >>= &k`), with a narrow amount type
    ShlRef(u32),
    ShrRef(u32),
    SetBit(u32, bool),
    SetZero,
    SetOne,
    CloneFrom(u8),
    AssignSlice(u8, u8),
    Neg,
    Not,
}
const OPS: [&str; 8] = ["+=", "-=", "*=", "/=", "%=", "&=", "|=", "^="];
const SHIFTS: [u32; 6] = [1, 63, 64, 65, 130, 1000];
const BITS: [u32; 5] = [0, 63, 64, 127, 200];
const MAXLEN: usize = 20; // states above this many digits are observed but not expanded

fn slices() -> Vec<Vec<u32>> {
    vec![vec![], vec![0, 0, 0], vec![7], vec![7, 0, 0, 0, 0], vec![0, 0, 1, 0], vec![u32::MAX; 5], vec![1, 2, 3, 4, 5, 6, 7, 0, 0]]
}

fn operand_pool_int() -> Vec<Int> {
    vec![
        Int::zero(),
        Int::from_i64(1),
        Int::from_i64(-1),
        Int::new(false, Nat::from_digits(&[alpha::M])),
        Int::new(false, Nat::from_digits(&[0, 1])),
        Int::new(true, Nat::from_digits(&[0, 1])),
        Int::new(false, Nat::from_digits(&[alpha::M, alpha::M])),
        Int::new(false, Nat::from_digits(&[5, 1])),
    ]
}
const SELF_IDX: u8 = 8;
const NEGSELF_IDX: u8 = 9;

fn init_vals() -> Vec<Int> {
    vec![
        Int::zero(),
        Int::from_i64(1),
        Int::from_i64(-1),
        Int::new(false, Nat::from_digits(&[alpha::M])),
        Int::new(true, Nat::from_digits(&[alpha::M])),
        Int::new(false, Nat::from_digits(&[0, 1])),
        Int::new(true, Nat::from_digits(&[0, 1])),
        Int::new(false, Nat::from_digits(&[alpha::M, alpha::M])),
        Int::new(true, Nat::from_digits(&[0, alpha::H])),
        Int::new(false, Nat::from_digits(&[alpha::M, alpha::M, alpha::M])),
        Int::new(true, Nat::from_digits(&alpha::pat(3, 10))),
        Int::new(false, Nat::from_digits(&[1, 0, 0, 1 << 8])),
        Int::new(true, Nat::from_digits(&[0x1_0000_0000])),
    ]
}
const NWAYS: usize = 5;
const NINCONS: usize = 6;

fn sgn(neg: bool, zero: bool) -> Sign {
    if zero {
        Sign::NoSign
    } else if neg {
        Sign::Minus
    } else {
        Sign::Plus
    }
}

/// initial construction `id` -> (real object, model value, description)
fn init_int(id: usize) -> (BigInt, Int, String) {
    let vals = init_vals();
    if id < vals.len() * NWAYS {
        let v = vals[id / NWAYS].clone();
        let way = id % NWAYS;
        // for way 1/2 deliberately pass a non-NoSign sign even for zero magnitude
        let s_req = if v.is_zero() { Sign::Plus } else { sgn(v.neg, false) };
        let u32d = v.mag.to_u32_digits();
        let x = match way {
            0 => BigInt::from_slice(sgn(v.neg, v.is_zero()), &u32d),
            1 => {
                let mut d = u32d.clone();
                d.extend_from_slice(&[0, 0, 0]);
                BigInt::new(s_req, d)
            }
            2 => {
                let mut b = v.mag.to_bytes_le_min();
                b.extend_from_slice(&[0u8; 9]);
                BigInt::from_bytes_le(s_req, &b)
            }
            3 => {
                let t = BigInt::from_slice(sgn(v.neg, v.is_zero()), &u32d);
                (t << 200u32) >> 200u32
            }
            _ => {
                // large slack: the buffer keeps room for ~32 more digits
                let mut t = BigInt::from_slice(sgn(v.neg, v.is_zero()), &u32d);
                t <<= 2000u32;
                t >>= 2000u32;
                t
            }
        };
        let desc = format!("init value {} way {}", v.to_hex(), ["from_slice", "new+zero words", "from_bytes_le+zero bytes", "(x<<200)>>200", "x<<=2000; x>>=2000"][way]);
        (x, v, desc)
    } else {
        let k = id - vals.len() * NWAYS;
        let five = bu(&[5]);
        match k {
            0 => (BigInt::from_biguint(Sign::NoSign, five), Int::zero(), "from_biguint(NoSign, 5)".into()),
            1 => (BigInt::from_biguint(Sign::Plus, BigUint::ZERO), Int::zero(), "from_biguint(Plus, 0)".into()),
            2 => (BigInt::from_biguint(Sign::Minus, BigUint::ZERO), Int::zero(), "from_biguint(Minus, 0)".into()),
            3 => (BigInt::new(Sign::NoSign, vec![5, 6]), Int::zero(), "new(NoSign, [5,6])".into()),
            4 => (BigInt::from_slice(Sign::Minus, &[0, 0]), Int::zero(), "from_slice(Minus, [0,0])".into()),
            _ => (BigInt::from_bytes_be(Sign::NoSign, &[1, 2, 3]), Int::zero(), "from_bytes_be(NoSign, [1,2,3])".into()),
        }
    }
}
fn n_init_int() -> usize {
    init_vals().len() * NWAYS + NINCONS
}

fn operand_int(idx: u8, cur: &Int) -> Int {
    match idx {
        SELF_IDX => cur.clone(),
        NEGSELF_IDX => cur.neg(),
        i => operand_pool_int()[i as usize].clone(),
    }
}

fn enabled_int(v: &Int, out: &mut Vec<Act>) {
    if v.mag.len() > MAXLEN {
        return;
    }
    for op in 0..8u8 {
        for idx in 0..=NEGSELF_IDX {
            let o = operand_int(idx, v);
            if (op == 3 || op == 4) && o.is_zero() {
                continue; // zero divisors belong to C03/C14
            }
            out.push(Act::Op(op, idx));
        }
    }
    for &s in &SHIFTS {
        out.push(Act::Shl(s));
        out.push(Act::Shr(s));
        if s == 1 || s == 64 || s == 130 {
            out.push(Act::ShlRef(s));
            out.push(Act::ShrRef(s));
        }
    }
    for &b in &BITS {
        out.push(Act::SetBit(b, true));
        out.push(Act::SetBit(b, false));
    }
    out.push(Act::SetZero);
    out.push(Act::SetOne);
    for i in [0u8, 3, 9, 10] {
        out.push(Act::CloneFrom(i));
    }
    for s in 0..3u8 {
        for sl in 0..slices().len() as u8 {
            out.push(Act::AssignSlice(s, sl));
        }
    }
    out.push(Act::Neg);
    out.push(Act::Not);
}

/// Apply `a` to the real object and to the model.  Err = the real operation panicked.
fn apply_int(x: &mut BigInt, v: &mut Int, a: Act) -> Result<(), String> {
    use num_traits::{One, Zero};
    match a {
        Act::Op(op, idx) => {
            let o = operand_int(idx, v);
            let ob = if idx == SELF_IDX {
                x.clone()
            } else if idx == NEGSELF_IDX {
                -x.clone()
            } else {
                bi_int(&o)
            };
            let byval = idx >= SELF_IDX;
            let nv = match op {
                0 => v.add(&o),
                1 => v.sub(&o),
                2 => v.mul(&o),
                3 => v.divrem_trunc(&o).0,
                4 => v.divrem_trunc(&o).1,
                5 => v.and(&o),
                6 => v.or(&o),
                _ => v.xor(&o),
            };
            let r = guard(|| {
                if byval {
                    match op {
                        0 => *x += ob,
                        1 => *x -= ob,
                        2 => *x *= ob,
                        3 => *x /= ob,
                        4 => *x %= ob,
                        5 => *x &= ob,
                        6 => *x |= ob,
                        _ => *x ^= ob,
                    }
                } else {
                    match op {
                        0 => *x += &ob,
                        1 => *x -= &ob,
                        2 => *x *= &ob,
                        3 => *x /= &ob,
                        4 => *x %= &ob,
                        5 => *x &= &ob,
                        6 => *x |= &ob,
                        _ => *x ^= &ob,
                    }
                }
            });
            *v = nv;
            r
        }
        Act::Shl(s) => {
            *v = v.shl(s as u64);
            guard(|| *x <<= s)
        }
        Act::Shr(s) => {
            *v = v.shr_floor(s as u64);
            guard(|| *x >>= s)
        }
        Act::ShlRef(s) => {
            *v = v.shl(s as u64);
            let k = s as u8;
            guard(|| *x <<= &k)
        }
        Act::ShrRef(s) => {
            *v = v.shr_floor(s as u64);
            let k = s as usize;
            guard(|| *x >>= &k)
        }
        Act::SetBit(b, val) => {
            *v = v.set_bit(b as u64, val);
            guard(|| x.set_bit(b as u64, val))
        }
        Act::SetZero => {
            *v = Int::zero();
            guard(|| x.set_zero())
        }
        Act::SetOne => {
            *v = Int::from_i64(1);
            guard(|| x.set_one())
        }
        Act::CloneFrom(i) => {
            let src = init_vals()[i as usize].clone();
            let sb = bi_int(&src);
            *v = src;
            guard(|| x.clone_from(&sb))
        }
        Act::AssignSlice(s, sl) => {
            let slice = slices()[sl as usize].clone();
            let sign = [Sign::Minus, Sign::NoSign, Sign::Plus][s as usize];
            let mag = Nat::from_u32_digits(&slice);
            *v = if sign == Sign::NoSign { Int::zero() } else { Int::new(sign == Sign::Minus, mag) };
            guard(|| x.assign_from_slice(sign, &slice))
        }
        Act::Neg => {
            *v = v.neg();
            guard(|| {
                let t = std::mem::take(x);
                *x = -t;
            })
        }
        Act::Not => {
            *v = v.not();
            guard(|| {
                let t = std::mem::take(x);
                *x = !t;
            })
        }
    }
}

#[derive(Clone, Debug)]
struct St {
    hist: Vec<Act>,
    init: u16,
    key: (u8, i8, Vec<u64>, usize, Vec<u64>, bool),
    bad: bool,
}
impl PartialEq for St {
    fn eq(&self, o: &St) -> bool {
        self.key == o.key
    }
}
impl Eq for St {}
impl Hash for St {
    fn hash<H: Hasher>(&self, h: &mut H) {
        self.key.hash(h)
    }
}

struct Shared {
    viols: Mutex<Vec<(String, String, String)>>, // key, history text, what
    transitions: AtomicU64,
    compared: AtomicU64,
    nontrivial: AtomicU64,
    not_expanded: AtomicU64,
    goals: Mutex<std::collections::BTreeMap<String, u64>>,
    samples: Mutex<Vec<String>>,
}
impl Shared {
    fn new() -> Shared {
        Shared { viols: Mutex::new(Vec::new()), transitions: AtomicU64::new(0), compared: AtomicU64::new(0), nontrivial: AtomicU64::new(0), not_expanded: AtomicU64::new(0), goals: Mutex::new(Default::default()), samples: Mutex::new(Vec::new()) }
    }
    fn goal(&self, g: &str) {
        *self.goals.lock().unwrap().entry(g.to_string()).or_insert(0) += 1;
    }
}

struct IntModel {
    depth: usize,
    shared: Shared,
    refs: Vec<(Int, BigInt)>,
}

impl IntModel {
    fn rebuild(&self, init: u16, hist: &[Act]) -> (BigInt, Int) {
        let (mut x, mut v, _) = init_int(init as usize);
        for &a in hist {
            let _ = apply_int(&mut x, &mut v, a);
        }
        (x, v)
    }
    fn mk_state(&self, init: u16, hist: Vec<Act>, x: &BigInt, v: &Int, panicked: Option<String>) -> St {
        let (s, d, cap) = raw_bigint(x);
        let si = match s {
            Sign::Minus => -1,
            Sign::NoSign => 0,
            Sign::Plus => 1,
        };
        self.shared.compared.fetch_add(1, AO::Relaxed);
        let what = match panicked {
            Some(m) => Some(format!("operation panicked: {}", m)),
            None => match guard(|| observe_int(x, v, &self.refs)) {
                Ok(w) => w,
                Err(m) => Some(format!("observer panicked (debug assertion on a denormalised value?): {}", m)),
            },
        };
        let bad = what.is_some();
        if let Some(w) = what {
            let htxt = format!("{} ; {:?}", init_int(init as usize).2, hist);
            let mut vs = self.shared.viols.lock().unwrap();
            if vs.len() < 200 {
                vs.push((format!("BigInt-hist {}", enc_hist(init, &hist)), htxt, w));
            }
        }
        if !hist.is_empty() && (d.len() >= 2 || cap > d.len()) {
            self.shared.nontrivial.fetch_add(1, AO::Relaxed);
        }
        if cap >= 4 * d.len().max(1) && !hist.is_empty() {
            self.shared.goal("capacity slack >= 4x length after a mutation");
        }
        if v.is_zero() && !hist.is_empty() {
            self.shared.goal("zero reached by mutation");
        }
        St { key: (hist.len() as u8, si, d.to_vec(), cap, v.mag.digits().to_vec(), v.neg), hist, init, bad }
    }
}

impl Model for IntModel {
    type State = St;
    type Action = Act;
    fn init_states(&self) -> Vec<St> {
        let mut out = Vec::new();
        for id in 0..n_init_int() {
            let (x, v, desc) = init_int(id);
            if id >= init_vals().len() * NWAYS {
                self.shared.goal("inconsistent (Sign, magnitude) request at construction");
            }
            if id % 11 == 0 {
                self.shared.samples.lock().unwrap().push(format!("BigInt init: {}", desc));
            }
            out.push(self.mk_state(id as u16, Vec::new(), &x, &v, None));
        }
        out
    }
    fn actions(&self, s: &St, out: &mut Vec<Act>) {
        if s.hist.len() >= self.depth || s.bad {
            return;
        }
        let v = Int::new(s.key.5, Nat::from_digits(&s.key.4));
        if v.mag.len() > MAXLEN {
            self.shared.not_expanded.fetch_add(1, AO::Relaxed);
            return;
        }
        enabled_int(&v, out);
    }
    fn next_state(&self, last: &St, a: Act) -> Option<St> {
        let (mut x, mut v) = self.rebuild(last.init, &last.hist);
        let cap_before = raw_bigint(&x).2;
        let was_neg = v.neg;
        self.shared.transitions.fetch_add(1, AO::Relaxed);
        runner::tick();
        let r = apply_int(&mut x, &mut v, a);
        let mut hist = last.hist.clone();
        hist.push(a);
        if raw_bigint(&x).2 < cap_before {
            self.shared.goal("buffer shrink observed");
        }
        if was_neg && v.is_zero() {
            self.shared.goal("zero reached from a negative value");
        }
        if hist.len() == 2 && self.shared.transitions.load(AO::Relaxed) % 50021 == 0 {
            self.shared.samples.lock().unwrap().push(format!("BigInt history: {} ; {:?} -> {}", init_int(last.init as usize).2, hist, v.to_hex()));
        }
        Some(self.mk_state(last.init, hist, &x, &v, r.err()))
    }
    fn properties(&self) -> Vec<Property<Self>> {
        vec![Property::always("observations follow the value", |_, s: &St| !s.bad), Property::always("exploration runs to completion", |_, _| true)]
    }
}

// ---------------------------------------------------------------- BigUint history model

fn operand_pool_nat() -> Vec<Nat> {
    vec![Nat::zero(), Nat::one(), Nat::from_digits(&[alpha::M]), Nat::from_digits(&[0, 1]), Nat::from_digits(&[alpha::M, alpha::M]), Nat::from_digits(&[1, 0, 1]), Nat::from_digits(&[5, 1])]
}
const USELF: u8 = 7;
fn uinit_vals() -> Vec<Nat> {
    vec![
        Nat::zero(),
        Nat::one(),
        Nat::from_digits(&[alpha::M]),
        Nat::from_digits(&[0, 1]),
        Nat::from_digits(&[0x1_0000_0000]),
        Nat::from_digits(&[alpha::M, alpha::M]),
        Nat::from_digits(&[0, alpha::H]),
        Nat::from_digits(&[alpha::M, alpha::M, alpha::M]),
        Nat::from_digits(&alpha::pat(3, 10)),
        Nat::from_digits(&[1, 0, 0, 1 << 8]),
    ]
}
fn init_uint(id: usize) -> (BigUint, Nat, String) {
    let vals = uinit_vals();
    let v = vals[id / NWAYS].clone();
    let way = id % NWAYS;
    let u32d = v.to_u32_digits();
    let x = match way {
        0 => BigUint::from_slice(&u32d),
        1 => {
            let mut d = u32d.clone();
            d.extend_from_slice(&[0, 0, 0]);
            BigUint::new(d)
        }
        2 => {
            let mut b = v.to_bytes_le_min();
            b.extend_from_slice(&[0u8; 9]);
            BigUint::from_bytes_le(&b)
        }
        3 => (BigUint::from_slice(&u32d) << 200u32) >> 200u32,
        _ => {
            let mut t = BigUint::from_slice(&u32d);
            t <<= 2000u32;
            t >>= 2000u32;
            t
        }
    };
    (x, v.clone(), format!("init value {} way {}", v.to_hex(), ["from_slice", "new+zero words", "from_bytes_le+zero bytes", "(x<<200)>>200", "x<<=2000; x>>=2000"][way]))
}
fn operand_nat(idx: u8, cur: &Nat) -> Nat {
    if idx == USELF {
        cur.clone()
    } else {
        operand_pool_nat()[idx as usize].clone()
    }
}
fn enabled_uint(v: &Nat, out: &mut Vec<Act>) {
    for op in 0..8u8 {
        for idx in 0..=USELF {
            let o = operand_nat(idx, v);
            if (op == 3 || op == 4) && o.is_zero() {
                continue;
            }
            if op == 1 && v.lt(&o) {
                continue; // underflow belongs to C01/C14
            }
            out.push(Act::Op(op, idx));
        }
    }
    for &s in &SHIFTS {
        out.push(Act::Shl(s));
        out.push(Act::Shr(s));
        if s == 1 || s == 64 || s == 130 {
            out.push(Act::ShlRef(s));
            out.push(Act::ShrRef(s));
        }
    }
    for &b in &BITS {
        out.push(Act::SetBit(b, true));
        out.push(Act::SetBit(b, false));
    }
    out.push(Act::SetZero);
    out.push(Act::SetOne);
    for i in [0u8, 2, 7, 9] {
        out.push(Act::CloneFrom(i));
    }
    for sl in 0..slices().len() as u8 {
        out.push(Act::AssignSlice(2, sl));
    }
}
fn nat_bitop(a: &Nat, b: &Nat, f: impl Fn(u64, u64) -> u64) -> Nat {
    let n = a.len().max(b.len());
    let v: Vec<u64> = (0..n).map(|i| f(*a.digits().get(i).unwrap_or(&0), *b.digits().get(i).unwrap_or(&0))).collect();
    Nat::from_digits(&v)
}
fn apply_uint(x: &mut BigUint, v: &mut Nat, a: Act) -> Result<(), String> {
    use num_traits::{One, Zero};
    match a {
        Act::Op(op, idx) => {
            let o = operand_nat(idx, v);
            let ob = if idx == USELF { x.clone() } else { bu_nat(&o) };
            let byval = idx == USELF;
            let nv = match op {
                0 => v.add(&o),
                1 => v.sub(&o).expect("enabled only when v >= o"),
                2 => v.mul(&o),
                3 => v.divrem(&o).0,
                4 => v.divrem(&o).1,
                5 => nat_bitop(v, &o, |p, q| p & q),
                6 => nat_bitop(v, &o, |p, q| p | q),
                _ => nat_bitop(v, &o, |p, q| p ^ q),
            };
            let r = guard(|| {
                if byval {
                    match op {
                        0 => *x += ob,
                        1 => *x -= ob,
                        2 => *x *= ob,
                        3 => *x /= ob,
                        4 => *x %= ob,
                        5 => *x &= ob,
                        6 => *x |= ob,
                        _ => *x ^= ob,
                    }
                } else {
                    match op {
                        0 => *x += &ob,
                        1 => *x -= &ob,
                        2 => *x *= &ob,
                        3 => *x /= &ob,
                        4 => *x %= &ob,
                        5 => *x &= &ob,
                        6 => *x |= &ob,
                        _ => *x ^= &ob,
                    }
                }
            });
            *v = nv;
            r
        }
        Act::Shl(s) => {
            *v = v.shl(s as u64);
            guard(|| *x <<= s)
        }
        Act::Shr(s) => {
            *v = v.shr(s as u64);
            guard(|| *x >>= s)
        }
        Act::ShlRef(s) => {
            *v = v.shl(s as u64);
            let k = s as u8;
            guard(|| *x <<= &k)
        }
        Act::ShrRef(s) => {
            *v = v.shr(s as u64);
            let k = s as usize;
            guard(|| *x >>= &k)
        }
        Act::SetBit(b, val) => {
            v.set_bit(b as u64, val);
            guard(|| x.set_bit(b as u64, val))
        }
        Act::SetZero => {
            *v = Nat::zero();
            guard(|| x.set_zero())
        }
        Act::SetOne => {
            *v = Nat::one();
            guard(|| x.set_one())
        }
        Act::CloneFrom(i) => {
            let src = uinit_vals()[i as usize].clone();
            let sb = bu_nat(&src);
            *v = src;
            guard(|| x.clone_from(&sb))
        }
        Act::AssignSlice(_, sl) => {
            let slice = slices()[sl as usize].clone();
            *v = Nat::from_u32_digits(&slice);
            guard(|| x.assign_from_slice(&slice))
        }
        Act::Neg | Act::Not => Ok(()),
    }
}

struct UintModel {
    depth: usize,
    shared: Shared,
    refs: Vec<(Nat, BigUint)>,
}
impl UintModel {
    fn mk_state(&self, init: u16, hist: Vec<Act>, x: &BigUint, v: &Nat, panicked: Option<String>) -> St {
        let (d, cap) = raw_biguint(x);
        self.shared.compared.fetch_add(1, AO::Relaxed);
        let what = match panicked {
            Some(m) => Some(format!("operation panicked: {}", m)),
            None => match guard(|| observe_uint(x, v, &self.refs)) {
                Ok(w) => w,
                Err(m) => Some(format!("observer panicked (debug assertion on a denormalised value?): {}", m)),
            },
        };
        let bad = what.is_some();
        if let Some(w) = what {
            let htxt = format!("{} ; {:?}", init_uint(init as usize).2, hist);
            let mut vs = self.shared.viols.lock().unwrap();
            if vs.len() < 200 {
                vs.push((format!("BigUint-hist {}", enc_hist(init, &hist)), htxt, w));
            }
        }
        if !hist.is_empty() && (d.len() >= 2 || cap > d.len()) {
            self.shared.nontrivial.fetch_add(1, AO::Relaxed);
        }
        St { key: (hist.len() as u8, 1, d.to_vec(), cap, v.digits().to_vec(), false), hist, init, bad }
    }
}
impl Model for UintModel {
    type State = St;
    type Action = Act;
    fn init_states(&self) -> Vec<St> {
        (0..uinit_vals().len() * NWAYS)
            .map(|id| {
                let (x, v, desc) = init_uint(id);
                if id % 9 == 0 {
                    self.shared.samples.lock().unwrap().push(format!("BigUint init: {}", desc));
                }
                self.mk_state(id as u16, Vec::new(), &x, &v, None)
            })
            .collect()
    }
    fn actions(&self, s: &St, out: &mut Vec<Act>) {
        if s.hist.len() >= self.depth || s.bad {
            return;
        }
        let v = Nat::from_digits(&s.key.4);
        if v.len() > MAXLEN {
            self.shared.not_expanded.fetch_add(1, AO::Relaxed);
            return;
        }
        enabled_uint(&v, out);
    }
    fn next_state(&self, last: &St, a: Act) -> Option<St> {
        let (mut x, mut v, _) = init_uint(last.init as usize);
        for &h in &last.hist {
            let _ = apply_uint(&mut x, &mut v, h);
        }
        let cap_before = raw_biguint(&x).1;
        self.shared.transitions.fetch_add(1, AO::Relaxed);
        runner::tick();
        let r = apply_uint(&mut x, &mut v, a);
        let mut hist = last.hist.clone();
        hist.push(a);
        if raw_biguint(&x).1 < cap_before {
            self.shared.goal("buffer shrink observed");
        }
        if hist.len() == 2 && self.shared.transitions.load(AO::Relaxed) % 30011 == 0 {
            self.shared.samples.lock().unwrap().push(format!("BigUint history: {} ; {:?} -> {}", init_uint(last.init as usize).2, hist, v.to_hex()));
        }
        Some(self.mk_state(last.init, hist, &x, &v, r.err()))
    }
    fn properties(&self) -> Vec<Property<Self>> {
        vec![Property::always("observations follow the value", |_, s: &St| !s.bad), Property::always("exploration runs to completion", |_, _| true)]
    }
}

/// Replay of one recorded history without the explorer: rebuild the object from its initial
/// construction, apply the recorded operations one by one to the real object and the model, and
/// observe after the last step.
fn replay_one(ctx: &mut Ctx, key: &str) -> bool {
    let (is_int, is_uint) = (key.starts_with("BigInt-hist "), key.starts_with("BigUint-hist "));
    if !is_int && !is_uint {
        return false;
    }
    let (init, hist) = match dec_hist(key) {
        Some(x) => x,
        None => return false,
    };
    let space = if is_int { "H-BigInt" } else { "H-BigUint" };
    if !ctx.space(space) || !ctx.mine(0) {
        return true;
    }
    ctx.case();
    ctx.calls(hist.len() as u64);
    ctx.compared(1);
    let what: Option<String> = if is_int {
        let (mut x, mut v, desc) = init_int(init as usize);
        println!("  direct replay: {} ; {:?}", desc, hist);
        let mut panicked = None;
        for &a in &hist {
            if let Err(m) = apply_int(&mut x, &mut v, a) {
                panicked = Some(m);
            }
        }
        let refs: Vec<(Int, BigInt)> = ref_points().into_iter().map(|r| (r.clone(), bi_int(&r))).collect();
        match panicked {
            Some(m) => Some(format!("operation panicked: {}", m)),
            None => guard(|| observe_int(&x, &v, &refs)).unwrap_or_else(|m| Some(format!("observer panicked (debug assertion on a denormalised value?): {}", m))),
        }
    } else {
        let (mut x, mut v, desc) = init_uint(init as usize);
        println!("  direct replay: {} ; {:?}", desc, hist);
        let mut panicked = None;
        for &a in &hist {
            if let Err(m) = apply_uint(&mut x, &mut v, a) {
                panicked = Some(m);
            }
        }
        let refs: Vec<(Nat, BigUint)> = operand_pool_nat().into_iter().map(|r| (r.clone(), bu_nat(&r))).collect();
        match panicked {
            Some(m) => Some(format!("operation panicked: {}", m)),
            None => guard(|| observe_uint(&x, &v, &refs)).unwrap_or_else(|m| Some(format!("observer panicked (debug assertion on a denormalised value?): {}", m))),
        }
    };
    if let Some(w) = what {
        ctx.viol(key.to_string(), &w, vec![format!("{:?}", hist)], "indistinguishable from a fresh canonical object of the model value".into(), w.clone());
    }
    true
}

fn run_hist(ctx: &mut Ctx) {
    if ctx.is_replay() {
        if let Ok(key) = std::env::var("NBMC_REPLAY_KEY") {
            if replay_one(ctx, &key) {
                return;
            }
        }
    }
    let depth = std::env::var("NBMC_C04_DEPTH").ok().and_then(|s| s.parse().ok()).unwrap_or(ctx.tier.pick(3, 5));
    let threads = std::thread::available_parallelism().map(|n| n.get()).unwrap_or(4);
    if ctx.space("H-BigInt") && ctx.mine(0) {
        let refs: Vec<(Int, BigInt)> = ref_points().into_iter().map(|r| (r.clone(), bi_int(&r))).collect();
        let m = IntModel { depth, shared: Shared::new(), refs };
        let mut counts = Vec::new();
        let mut last = None;
        // two runs: the unique-state count of a parallel search must be reproducible
        let runs = if ctx.is_replay() { 1 } else { 2 };
        for _ in 0..runs {
            let mm = IntModel { depth, shared: Shared::new(), refs: m.refs.clone() };
            let ck = mm.checker().threads(threads).finish_when(HasDiscoveries::AllFailures).spawn_bfs().join();
            counts.push((ck.unique_state_count(), ck.max_depth()));
            last = Some(ck);
        }
        let ck = last.unwrap();
        if counts.iter().any(|c| *c != counts[0]) {
            panic!("stateright unique-state counts differ between runs: {:?}", counts);
        }
        let sh = &ck.model().shared;
        ctx.cases(ck.unique_state_count() as u64);
        ctx.calls(sh.transitions.load(AO::Relaxed));
        ctx.compared(sh.compared.load(AO::Relaxed));
        ctx.nontrivial(sh.nontrivial.load(AO::Relaxed).min(ck.unique_state_count() as u64));
        ctx.count("H-BigInt.generated_states_incl_repeats", ck.state_count() as u64);
        ctx.count("H-BigInt.max_depth", ck.max_depth() as u64);
        ctx.count("H-BigInt.states_not_expanded_over_digit_cap", sh.not_expanded.load(AO::Relaxed));
        for (g, n) in sh.goals.lock().unwrap().iter() {
            for _ in 0..(*n).min(1) {
                ctx.goal(&format!("BigInt: {}", g));
            }
            ctx.count(&format!("goal.BigInt.{}", g), *n);
        }
        for s in sh.samples.lock().unwrap().iter().take(6) {
            let s = s.clone();
            ctx.samples.push(s);
        }
        let mut seen = std::collections::HashSet::new();
        for (key, h, w) in sh.viols.lock().unwrap().iter() {
            // keep the shortest history per failure description
            if seen.insert(w.clone()) || seen.len() < 20 {
                ctx.viol(key.clone(), w, vec![h.clone()], "indistinguishable from a fresh canonical object of the model value".into(), w.clone());
            }
        }
    }
    if ctx.space("H-BigUint") && ctx.mine(0) {
        let refs: Vec<(Nat, BigUint)> = operand_pool_nat().into_iter().map(|r| (r.clone(), bu_nat(&r))).collect();
        let mut counts = Vec::new();
        let mut last = None;
        let runs = if ctx.is_replay() { 1 } else { 2 };
        for _ in 0..runs {
            let mm = UintModel { depth, shared: Shared::new(), refs: refs.clone() };
            let ck = mm.checker().threads(threads).finish_when(HasDiscoveries::AllFailures).spawn_bfs().join();
            counts.push((ck.unique_state_count(), ck.max_depth()));
            last = Some(ck);
        }
        let ck = last.unwrap();
        if counts.iter().any(|c| *c != counts[0]) {
            panic!("stateright unique-state counts differ between runs: {:?}", counts);
        }
        let sh = &ck.model().shared;
        ctx.cases(ck.unique_state_count() as u64);
        ctx.calls(sh.transitions.load(AO::Relaxed));
        ctx.compared(sh.compared.load(AO::Relaxed));
        ctx.nontrivial(sh.nontrivial.load(AO::Relaxed).min(ck.unique_state_count() as u64));
        ctx.count("H-BigUint.generated_states_incl_repeats", ck.state_count() as u64);
        ctx.count("H-BigUint.states_not_expanded_over_digit_cap", sh.not_expanded.load(AO::Relaxed));
        for (g, n) in sh.goals.lock().unwrap().iter() {
            ctx.goal(&format!("BigUint: {}", g));
            ctx.count(&format!("goal.BigUint.{}", g), *n);
        }
        for s in sh.samples.lock().unwrap().iter().take(6) {
            let s = s.clone();
            ctx.samples.push(s);
        }
        let mut seen = std::collections::HashSet::new();
        for (key, h, w) in sh.viols.lock().unwrap().iter() {
            if seen.insert(w.clone()) || seen.len() < 20 {
                ctx.viol(key.clone(), w, vec![h.clone()], "indistinguishable from a fresh canonical object of the model value".into(), w.clone());
            }
        }
    }
}

// ---------------------------------------------------------------- generator families (E-prod)

fn run_generators(ctx: &mut Ctx) {
    let refs_i: Vec<(Int, BigInt)> = ref_points().into_iter().map(|r| (r.clone(), bi_int(&r))).collect();
    let refs_u: Vec<(Nat, BigUint)> = operand_pool_nat().into_iter().map(|r| (r.clone(), bu_nat(&r))).collect();
    // arbitrary::Arbitrary from every byte string over {00,01,ff} up to a length
    if ctx.space("G-arbitrary") && ctx.mine(0) {
        use arbitrary::{Arbitrary, Unstructured};
        let maxlen = ctx.tier.pick(8usize, 10usize);
        let sig = [0x00u8, 0x01, 0xff];
        let mut idx: Vec<usize> = Vec::new();
        let mut distinct = std::collections::HashSet::new();
        loop {
            let bytes: Vec<u8> = idx.iter().map(|&i| sig[i]).collect();
            ctx.case();
            for which in 0..4 {
                let r = guard(|| {
                    let mut u = Unstructured::new(&bytes);
                    match which {
                        0 => BigUint::arbitrary(&mut u).ok().map(|x| BigInt::from(x)),
                        1 => BigInt::arbitrary(&mut u).ok(),
                        2 => BigUint::arbitrary_take_rest(Unstructured::new(&bytes)).ok().map(|x| BigInt::from(x)),
                        _ => BigInt::arbitrary_take_rest(Unstructured::new(&bytes)).ok(),
                    }
                });
                ctx.calls(1);
                match r {
                    Ok(Some(x)) => {
                        ctx.compared(1);
                        let v = int_of(&x);
                        distinct.insert(v.to_hex());
                        if let Some(w) = observe_int(&x, &v, &refs_i) {
                            ctx.viol(format!("arbitrary[{}] bytes={:02x?}", which, bytes), &w, vec![format!("{:02x?}", bytes)], "canonical value".into(), w.clone());
                        }
                        if which == 0 || which == 2 {
                            if let Some(u) = x.to_biguint() {
                                if let Some(w) = observe_uint(&u, &v.mag, &refs_u) {
                                    ctx.viol(format!("arbitrary-uint[{}] bytes={:02x?}", which, bytes), &w, vec![format!("{:02x?}", bytes)], "canonical value".into(), w.clone());
                                }
                            }
                        }
                    }
                    Ok(None) => {}
                    Err(m) => ctx.viol(format!("arbitrary[{}] bytes={:02x?}", which, bytes), "generator panicked", vec![format!("{:02x?}", bytes)], "a value".into(), m),
                }
            }
            // next string in length-then-odometer order
            let mut p = 0;
            loop {
                if p == idx.len() {
                    idx.push(0);
                    for q in idx.iter_mut() {
                        *q = 0;
                    }
                    break;
                }
                idx[p] += 1;
                if idx[p] < sig.len() {
                    break;
                }
                idx[p] = 0;
                p += 1;
            }
            if idx.len() > maxlen {
                break;
            }
        }
        ctx.nontrivial(distinct.len() as u64);
        ctx.sample(|| format!("arbitrary::Arbitrary for BigUint/BigInt on every byte string over {{00,01,ff}} of length <= {}: {} distinct values", maxlen, distinct.len()));
    }
    // deserializer: every JSON u32 sequence over {0,1,2^32-1} up to a length (trailing zeros, odd lengths), with every
    // sign token -1/0/1 for BigInt -- whatever value results must be indistinguishable from a canonical object of it
    if ctx.space("G-serde") && ctx.mine(0) {
        let maxlen = ctx.tier.pick(6usize, 8usize);
        let sig = [0u32, 1, u32::MAX];
        let mut nz = 0u64;
        for len in 0..=maxlen {
            let mut idx = vec![0usize; len];
            loop {
                let w: Vec<u32> = idx.iter().map(|&i| sig[i]).collect();
                let seq = format!("[{}]", w.iter().map(|d| d.to_string()).collect::<Vec<_>>().join(","));
                ctx.case();
                ctx.calls(1);
                if w.last() == Some(&0) {
                    nz += 1;
                }
                match guard(|| serde_json::from_str::<BigUint>(&seq)) {
                    Ok(Ok(u)) => {
                        ctx.compared(1);
                        let v = nat_of(&u);
                        if let Some(wn) = observe_uint(&u, &v, &refs_u) {
                            ctx.viol(format!("serde BigUint json={}", seq), &wn, vec![seq.clone()], "canonical value".into(), wn.clone());
                        }
                    }
                    other => ctx.viol(format!("serde BigUint json={}", seq), "valid u32 sequence rejected or panicked", vec![seq.clone()], "a value".into(), format!("{:?}", other.map(|r| r.map(|_| ()).map_err(|e| e.to_string())))),
                }
                for sg in [-1i32, 0, 1] {
                    let txt = format!("[{},{}]", sg, seq);
                    ctx.calls(1);
                    match guard(|| serde_json::from_str::<BigInt>(&txt)) {
                        Ok(Ok(x)) => {
                            ctx.compared(1);
                            let v = int_of(&x);
                            if let Some(wn) = observe_int(&x, &v, &refs_i) {
                                ctx.viol(format!("serde BigInt json={}", txt), &wn, vec![txt.clone()], "canonical value".into(), wn.clone());
                            }
                        }
                        other => ctx.viol(format!("serde BigInt json={}", txt), "valid (sign, sequence) pair rejected or panicked", vec![txt.clone()], "a value".into(), format!("{:?}", other.map(|r| r.map(|_| ()).map_err(|e| e.to_string())))),
                    }
                }
                let mut p = 0;
                while p < len {
                    idx[p] += 1;
                    if idx[p] < sig.len() {
                        break;
                    }
                    idx[p] = 0;
                    p += 1;
                }
                if p == len {
                    break;
                }
            }
        }
        ctx.nontrivial(nz);
        ctx.sample(|| format!("serde_json: every u32 sequence over {{0,1,2^32-1}} of length <= {} as BigUint and with sign tokens -1/0/1 as BigInt", maxlen));
    }
    // random generators: every word stream over a 4-letter alphabet up to a length x every bit size / bound family
    if ctx.space("G-rand") && ctx.mine(0) {
        use num_bigint::{RandBigInt, RandomBits, UniformBigInt, UniformBigUint};
        use rand::distributions::uniform::UniformSampler;
        use rand::distributions::Distribution;
        struct StreamRng {
            words: Vec<u32>,
            pos: usize,
        }
        impl StreamRng {
            fn word(&mut self) -> u32 {
                let w = self.words.get(self.pos).copied().unwrap_or(0);
                self.pos += 1;
                w
            }
        }
        impl rand::RngCore for StreamRng {
            fn next_u32(&mut self) -> u32 {
                self.word()
            }
            fn next_u64(&mut self) -> u64 {
                let lo = self.word() as u64;
                let hi = self.word() as u64;
                lo | (hi << 32)
            }
            fn fill_bytes(&mut self, dest: &mut [u8]) {
                for chunk in dest.chunks_mut(4) {
                    let w = self.word().to_le_bytes();
                    chunk.copy_from_slice(&w[..chunk.len()]);
                }
            }
            fn try_fill_bytes(&mut self, dest: &mut [u8]) -> Result<(), rand::Error> {
                self.fill_bytes(dest);
                Ok(())
            }
        }
        let maxlen = ctx.tier.pick(3usize, 5usize);
        let sig = [0u32, 1, 0x8000_0000, u32::MAX];
        let bounds: Vec<Nat> = vec![Nat::one(), Nat::from_u64(2), Nat::from_u64(1 << 32), Nat::from_digits(&[alpha::M]), Nat::from_digits(&[0, 1]), Nat::from_digits(&[1, 1]), Nat::from_digits(&[0, 0, 1]), Nat::from_digits(&[alpha::M, alpha::M, 1])];
        let mut distinct = std::collections::HashSet::new();
        for len in 0..=maxlen {
            let mut idx = vec![0usize; len];
            loop {
                let w: Vec<u32> = idx.iter().map(|&i| sig[i]).collect();
                ctx.case();
                let mut outs: Vec<(String, BigInt, bool)> = Vec::new();
                let r = guard(|| {
                    let mut o: Vec<(String, BigInt, bool)> = Vec::new();
                    for bits in (0..=130u64).chain([191, 192, 193, 256, 257]) {
                        let mut g = StreamRng { words: w.clone(), pos: 0 };
                        o.push((format!("gen_biguint({})", bits), BigInt::from(g.gen_biguint(bits)), true));
                        let mut g = StreamRng { words: w.clone(), pos: 0 };
                        o.push((format!("gen_bigint({})", bits), g.gen_bigint(bits), false));
                        let mut g = StreamRng { words: w.clone(), pos: 0 };
                        let u: BigUint = RandomBits::new(bits).sample(&mut g);
                        o.push((format!("RandomBits<BigUint>({})", bits), BigInt::from(u), true));
                        let mut g = StreamRng { words: w.clone(), pos: 0 };
                        o.push((format!("RandomBits<BigInt>({})", bits), RandomBits::new(bits).sample(&mut g), false));
                    }
                    for b in &bounds {
                        let bu_ = bu_nat(b);
                        let bi_ = BigInt::from(bu_.clone());
                        let mut g = StreamRng { words: w.clone(), pos: 0 };
                        o.push((format!("gen_biguint_below({})", b.to_hex()), BigInt::from(g.gen_biguint_below(&bu_)), true));
                        let mut g = StreamRng { words: w.clone(), pos: 0 };
                        o.push((format!("gen_biguint_range(1,{}+1)", b.to_hex()), BigInt::from(g.gen_biguint_range(&BigUint::from(1u32), &(&bu_ + 1u32))), true));
                        let mut g = StreamRng { words: w.clone(), pos: 0 };
                        o.push((format!("gen_bigint_range(-{0},{0})", b.to_hex()), g.gen_bigint_range(&-&bi_, &bi_), false));
                        let mut g = StreamRng { words: w.clone(), pos: 0 };
                        o.push((format!("Uniform<BigUint>(0,{})", b.to_hex()), BigInt::from(UniformBigUint::new(BigUint::from(0u32), bu_.clone()).sample(&mut g)), true));
                        let mut g = StreamRng { words: w.clone(), pos: 0 };
                        o.push((format!("Uniform<BigInt>[-{0},{0}]", b.to_hex()), UniformBigInt::new_inclusive(-&bi_, bi_.clone()).sample(&mut g), false));
                    }
                    o
                });
                match r {
                    Ok(o) => outs = o,
                    Err(m) => ctx.viol(format!("rand generators words={:x?}", w), "generator panicked", vec![format!("{:x?}", w)], "values".into(), m),
                }
                for (name, x, also_uint) in &outs {
                    ctx.calls(1);
                    ctx.compared(1);
                    let v = int_of(x);
                    distinct.insert(v.to_hex());
                    if let Some(wn) = observe_int(x, &v, &refs_i) {
                        ctx.viol(format!("rand {} words={:x?}", name, w), &wn, vec![format!("{:x?}", w)], "canonical value".into(), wn.clone());
                    }
                    if *also_uint {
                        if let Some(wn) = observe_uint(x.magnitude(), &v.mag, &refs_u) {
                            ctx.viol(format!("rand-uint {} words={:x?}", name, w), &wn, vec![format!("{:x?}", w)], "canonical value".into(), wn.clone());
                        }
                    }
                }
                let mut p = 0;
                while p < len {
                    idx[p] += 1;
                    if idx[p] < sig.len() {
                        break;
                    }
                    idx[p] = 0;
                    p += 1;
                }
                if p == len {
                    break;
                }
            }
        }
        ctx.nontrivial(distinct.len() as u64);
        ctx.sample(|| format!("rand: every word stream over {{0,1,2^31,2^32-1}} of length <= {} (then zeros) x bit sizes 0..=130,191..193,256,257 x gen_biguint/gen_bigint/RandomBits, 8 bounds x below/range/Uniform: {} distinct values", maxlen, distinct.len()));
    }
    if ctx.space("G-quickcheck") && ctx.mine(0) {
        use quickcheck::{Arbitrary, Gen};
        let seeds = ctx.tier.pick(1024u64, 4096u64);
        let mut distinct = std::collections::HashSet::new();
        for size in 1..=8usize {
            for seed in 0..seeds {
                ctx.case();
                ctx.calls(2);
                let r = guard(|| {
                    let mut g = Gen::from_size_and_seed(size, seed);
                    let a = BigInt::arbitrary(&mut g);
                    let b = BigUint::arbitrary(&mut g);
                    (a, b)
                });
                match r {
                    Ok((a, b)) => {
                        ctx.compared(2);
                        let v = int_of(&a);
                        distinct.insert(v.to_hex());
                        if let Some(w) = observe_int(&a, &v, &refs_i) {
                            ctx.viol(format!("quickcheck BigInt size={} seed={}", size, seed), &w, vec![], "canonical value".into(), w.clone());
                        }
                        let n = nat_of(&b);
                        if let Some(w) = observe_uint(&b, &n, &refs_u) {
                            ctx.viol(format!("quickcheck BigUint size={} seed={}", size, seed), &w, vec![], "canonical value".into(), w.clone());
                        }
                    }
                    Err(m) => ctx.viol(format!("quickcheck size={} seed={}", size, seed), "generator panicked", vec![], "a value".into(), m),
                }
            }
        }
        // shrink() of the pool values: every shrunk candidate must be canonical
        for v in init_vals() {
            let x = bi_int(&v);
            let r = guard(|| x.shrink().take(2000).collect::<Vec<BigInt>>());
            ctx.calls(1);
            match r {
                Ok(list) => {
                    for s in list {
                        ctx.case();
                        ctx.compared(1);
                        let sv = int_of(&s);
                        distinct.insert(sv.to_hex());
                        if let Some(w) = observe_int(&s, &sv, &refs_i) {
                            ctx.viol(format!("quickcheck shrink of {}", v.to_hex()), &w, vec![sv.to_hex()], "canonical value".into(), w.clone());
                        }
                    }
                }
                Err(m) => ctx.viol(format!("quickcheck shrink of {}", v.to_hex()), "shrink panicked", vec![], "an iterator".into(), m),
            }
            if !v.neg {
                let u = bu_nat(&v.mag);
                if let Ok(list) = guard(|| u.shrink().take(2000).collect::<Vec<BigUint>>()) {
                    for s in list {
                        ctx.case();
                        ctx.compared(1);
                        let sv = nat_of(&s);
                        if let Some(w) = observe_uint(&s, &sv, &refs_u) {
                            ctx.viol(format!("quickcheck shrink of BigUint {}", v.to_hex()), &w, vec![sv.to_hex()], "canonical value".into(), w.clone());
                        }
                    }
                }
            }
        }
        ctx.nontrivial(distinct.len() as u64);
        ctx.sample(|| format!("quickcheck::Arbitrary with Gen::from_size_and_seed(size<=8, seed<{}) and shrink() of the pool: {} distinct values", seeds, distinct.len()));
    }
    // constructor families with redundant padding: every pair of constructions of the same value must agree
    if ctx.space("G-constructors") && ctx.mine(0) {
        let vals = init_vals();
        for v in &vals {
            let u32d = v.mag.to_u32_digits();
            let bytes = v.mag.to_bytes_le_min();
            let mut objs: Vec<(String, BigInt)> = Vec::new();
            let s = sgn(v.neg, v.is_zero());
            for pad in 0..4usize {
                let mut d = u32d.clone();
                d.extend(std::iter::repeat(0).take(pad));
                objs.push((format!("new pad{}", pad), BigInt::new(s, d.clone())));
                objs.push((format!("from_slice pad{}", pad), BigInt::from_slice(s, &d)));
                let mut t = bi_int(&Int::new(true, Nat::from_digits(&[9; 5])));
                t.assign_from_slice(s, &d);
                objs.push((format!("assign_from_slice pad{}", pad), t));
                let mut b = bytes.clone();
                b.extend(std::iter::repeat(0).take(pad * 3));
                objs.push((format!("from_bytes_le pad{}", pad * 3), BigInt::from_bytes_le(s, &b)));
                let mut be = b.clone();
                be.reverse();
                objs.push((format!("from_bytes_be pad{}", pad * 3), BigInt::from_bytes_be(s, &be)));
                let mut rd: Vec<u8> = v.mag.to_radix_le(256).iter().map(|&x| x as u8).collect();
                rd.extend(std::iter::repeat(0).take(pad));
                if let Some(x) = BigInt::from_radix_le(s, &rd, 256) {
                    objs.push((format!("from_radix_le(256) pad{}", pad), x));
                }
                let mut r10: Vec<u8> = v.mag.to_radix_le(10).iter().map(|&x| x as u8).collect();
                r10.extend(std::iter::repeat(0).take(pad));
                if let Some(x) = BigInt::from_radix_le(s, &r10, 10) {
                    objs.push((format!("from_radix_le(10) pad{}", pad), x));
                }
            }
            objs.push(("from_str leading zeros".into(), format!("{}000{}", if v.neg { "-" } else { "" }, v.mag.to_dec()).parse::<BigInt>().unwrap()));
            // digit-vector and text constructors in every radix class (bit-aligned, bit-unaligned power of two, general)
            // with short and long runs of redundant leading zero digits (longer than one and two 64-bit words)
            for &radix in &[2u32, 4, 8, 16, 32, 64, 128, 256, 3, 7, 10, 36, 255] {
                let base: Vec<u8> = v.mag.to_radix_le(radix).iter().map(|&x| x as u8).collect();
                for &pad in &[0usize, 1, 5, 9, 10, 11, 13, 21, 22, 23, 45, 64, 65, 70, 130] {
                    let mut le = base.clone();
                    le.extend(std::iter::repeat(0).take(pad));
                    let mut be = le.clone();
                    be.reverse();
                    if let Some(x) = BigInt::from_radix_le(s, &le, radix) {
                        objs.push((format!("from_radix_le({}) pad{}", radix, pad), x));
                    }
                    if let Some(x) = BigInt::from_radix_be(s, &be, radix) {
                        objs.push((format!("from_radix_be({}) pad{}", radix, pad), x));
                    }
                    if radix <= 36 {
                        let txt: String = std::iter::once(if v.neg { "-" } else { "" }.to_string()).chain(be.iter().map(|&d| std::char::from_digit(d as u32, radix).unwrap().to_string())).collect();
                        if let Ok(x) = <BigInt as num_traits::Num>::from_str_radix(&txt, radix) {
                            objs.push((format!("from_str_radix({}) pad{}", radix, pad), x));
                        }
                        if let Some(x) = BigInt::parse_bytes(txt.as_bytes(), radix) {
                            objs.push((format!("parse_bytes({}) pad{}", radix, pad), x));
                        }
                    }
                }
            }
            for (name, x) in &objs {
                ctx.case();
                ctx.nontrivial(1);
                ctx.compared(1);
                ctx.calls(1);
                if let Some(w) = observe_int(x, v, &refs_i) {
                    ctx.viol(format!("constructor {} value {}", name, v.to_hex()), &w, vec![name.clone()], "canonical value".into(), w.clone());
                }
            }
            // pairwise: hash / eq across constructions
            for (n1, x1) in &objs {
                for (n2, x2) in &objs {
                    ctx.compared(1);
                    if x1 != x2 || hash_of(x1) != hash_of(x2) || x1.cmp(x2) != Ordering::Equal {
                        ctx.viol(format!("constructor pair {} vs {} value {}", n1, n2, v.to_hex()), "two constructions of the same value are distinguishable", vec![], "equal".into(), "different".into());
                    }
                }
            }
            // sort agrees with numerical order
        }
        let mut sorted: Vec<BigInt> = vals.iter().map(bi_int).collect();
        sorted.sort();
        let mut msorted = vals.clone();
        msorted.sort_by(|a, b| a.cmp(b));
        ctx.compared(1);
        if sorted.iter().map(int_of).collect::<Vec<_>>() != msorted {
            ctx.viol("sort of the pool".into(), "sort() disagrees with numerical order", vec![], "numerical order".into(), format!("{:?}", sorted));
        }
        ctx.sample(|| "each pool value built by new/from_slice/assign_from_slice/from_bytes/from_radix/from_str with 0..3 redundant zero words: all pairwise equal, same hash, same exports".to_string());
    }
}

/// "the result of any operation": results of every binary operator form on a dense product must be
/// indistinguishable from a canonical object of the value they denote
fn run_results(ctx: &mut Ctx) {
    if !ctx.space("G-results") {
        return;
    }
    let refs_i: Vec<(Int, BigInt)> = ref_points().into_iter().map(|r| (r.clone(), bi_int(&r))).collect();
    let refs_u: Vec<(Nat, BigUint)> = operand_pool_nat().into_iter().map(|r| (r.clone(), bu_nat(&r))).collect();
    let mut mags: Vec<Vec<u64>> = alpha::dense(&alpha::SIGMA5, 3);
    for l in [4usize, 5, 6, 9] {
        mags.push(alpha::lcg_digits(l, 2));
        mags.push(vec![alpha::M; l]);
        let mut v = vec![0u64; l];
        v[l - 1] = 1;
        mags.push(v.clone());
        v[0] = 1;
        mags.push(v);
    }
    let us: Vec<BigUint> = mags.iter().map(|d| bu(d)).collect();
    type FU = (&'static str, fn(&BigUint, &BigUint) -> BigUint);
    let forms_u: Vec<FU> = vec![
        ("&a+&b", |a, b| a + b),
        ("a+&b", |a, b| a.clone() + b),
        ("&a+b", |a, b| a + b.clone()),
        ("a+b", |a, b| a.clone() + b.clone()),
        ("&a-&b", |a, b| a - b),
        ("a-&b", |a, b| a.clone() - b),
        ("&a-b", |a, b| a - b.clone()),
        ("a-b", |a, b| a.clone() - b.clone()),
        ("&a*&b", |a, b| a * b),
        ("a*b", |a, b| a.clone() * b.clone()),
        ("&a/&b", |a, b| a / b),
        ("a/b", |a, b| a.clone() / b.clone()),
        ("a/&b", |a, b| a.clone() / b),
        ("&a%&b", |a, b| a % b),
        ("a%b", |a, b| a.clone() % b.clone()),
        ("&a%b", |a, b| a % b.clone()),
        ("&a&&b", |a, b| a & b),
        ("a&b", |a, b| a.clone() & b.clone()),
        ("&a|&b", |a, b| a | b),
        ("a|b", |a, b| a.clone() | b.clone()),
        ("&a^&b", |a, b| a ^ b),
        ("a^b", |a, b| a.clone() ^ b.clone()),
        ("a^&b", |a, b| a.clone() ^ b),
        ("gcd", |a, b| num_integer::Integer::gcd(a, b)),
        ("lcm", |a, b| num_integer::Integer::lcm(a, b)),
        ("modpow(a,0,b)", |a, b| a.modpow(&BigUint::ZERO, b)),
        ("modpow(a,1,b)", |a, b| a.modpow(&BigUint::from(1u32), b)),
        ("modpow(a,b&7,b)", |a, b| a.modpow(&(b & BigUint::from(7u32)), b)),
        ("modpow(b,a,b|1)", |a, b| b.modpow(&(a & BigUint::from(0xffffu32)), &(b | BigUint::from(1u32)))),
        ("modinv", |a, b| a.modinv(b).unwrap_or_default()),
        ("pow2+b", |a, b| a.pow(2) + b),
        ("pow3", |a, _| a.pow(3)),
        ("sqrt(a*b)", |a, b| (a * b).sqrt()),
        ("nth_root3(a<<b%64)", |a, b| (a << (b.bits() % 64)).nth_root(3)),
        ("a<<(bits b)", |a, b| a << b.bits()),
        ("a>>(bits b)", |a, b| a >> b.bits()),
        ("a>>64", |a, _| a >> 64u32),
        ("div_floor", |a, b| num_integer::Integer::div_floor(a, b)),
        ("next_multiple_of", |a, b| num_integer::Integer::next_multiple_of(a, b)),
        ("prev_multiple_of", |a, b| num_integer::Integer::prev_multiple_of(a, b)),
        ("a*b-b*a", |a, b| a * b - b * a),
    ];
    for (i, a) in us.iter().enumerate() {
        if !ctx.mine(i as u64) {
            continue;
        }
        for (j, b) in us.iter().enumerate() {
            ctx.inner(j as u64);
            ctx.case();
            for (name, f) in &forms_u {
                ctx.calls(1);
                if let Ok(r) = guard(|| f(a, b)) {
                    ctx.compared(1);
                    let v = nat_of(&r);
                    if v.len() >= 2 || raw_biguint(&r).0.len() != v.len() {
                        ctx.nontrivial(1);
                    }
                    if let Some(w) = observe_uint(&r, &v, &refs_u) {
                        ctx.viol(format!("result BigUint {} a={} b={}", name, hexs(&mags[i]), hexs(&mags[j])), &w, vec![name.to_string()], "canonical value".into(), w.clone());
                    }
                }
            }
        }
        ctx.sample(|| format!("a={} with every b of {} magnitudes through {} BigUint operator forms: every result observed against a canonical object", hexs(&mags[i]), us.len(), forms_u.len()));
    }
    // BigInt: both signs of a smaller family
    let imags: Vec<Vec<u64>> = alpha::dense(&alpha::SIGMA5, 2).into_iter().chain([vec![0, 0, 1], vec![alpha::M, alpha::M, alpha::M], vec![1, 0, 1], vec![0, 0, 0, 1]]).collect();
    let mut is: Vec<BigInt> = Vec::new();
    for d in &imags {
        is.push(BigInt::from(bu(d)));
        if !d.is_empty() {
            is.push(-BigInt::from(bu(d)));
        }
    }
    type FI = (&'static str, fn(&BigInt, &BigInt) -> BigInt);
    let forms_i: Vec<FI> = vec![
        ("&a+&b", |a, b| a + b),
        ("a+&b", |a, b| a.clone() + b),
        ("&a+b", |a, b| a + b.clone()),
        ("a+b", |a, b| a.clone() + b.clone()),
        ("&a-&b", |a, b| a - b),
        ("a-&b", |a, b| a.clone() - b),
        ("&a-b", |a, b| a - b.clone()),
        ("a-b", |a, b| a.clone() - b.clone()),
        ("&a*&b", |a, b| a * b),
        ("a*b", |a, b| a.clone() * b.clone()),
        ("&a/&b", |a, b| a / b),
        ("a/b", |a, b| a.clone() / b.clone()),
        ("&a%&b", |a, b| a % b),
        ("a%b", |a, b| a.clone() % b.clone()),
        ("div_floor", |a, b| num_integer::Integer::div_floor(a, b)),
        ("mod_floor", |a, b| num_integer::Integer::mod_floor(a, b)),
        ("&a&&b", |a, b| a & b),
        ("a&b", |a, b| a.clone() & b.clone()),
        ("a&&b", |a, b| a.clone() & b),
        ("&a|&b", |a, b| a | b),
        ("a|b", |a, b| a.clone() | b.clone()),
        ("a|&b", |a, b| a.clone() | b),
        ("&a^&b", |a, b| a ^ b),
        ("a^b", |a, b| a.clone() ^ b.clone()),
        ("a^&b", |a, b| a.clone() ^ b),
        ("gcd", |a, b| num_integer::Integer::gcd(a, b)),
        ("lcm", |a, b| num_integer::Integer::lcm(a, b)),
        ("modpow(a,0,b)", |a, b| a.modpow(&BigInt::ZERO, b)),
        ("modpow(a,|b|&7,b)", |a, b| a.modpow(&BigInt::from(b.magnitude() & BigUint::from(7u32)), b)),
        ("modinv", |a, b| a.modinv(b).unwrap_or_default()),
        ("pow2", |a, _| a.pow(2)),
        ("pow3-b", |a, b| a.pow(3) - b),
        ("cbrt", |a, _| a.cbrt()),
        ("a<<(bits b)", |a, b| a << b.bits()),
        ("a>>(bits b)", |a, b| a >> b.bits()),
        ("a>>64", |a, _| a >> 64u32),
        ("-a", |a, _| -a),
        ("!a", |a, _| !a),
        ("abs", |a, _| num_traits::Signed::abs(a)),
        ("abs_sub", |a, b| num_traits::Signed::abs_sub(a, b)),
        ("div_ceil", |a, b| num_integer::Integer::div_ceil(a, b)),
        ("div_euclid", |a, b| num_traits::Euclid::div_euclid(a, b)),
        ("rem_euclid", |a, b| num_traits::Euclid::rem_euclid(a, b)),
        ("next_multiple_of", |a, b| num_integer::Integer::next_multiple_of(a, b)),
        ("extended_gcd.x", |a, b| num_integer::Integer::extended_gcd(a, b).x),
    ];
    for (i, a) in is.iter().enumerate() {
        if !ctx.mine((1 << 20) + i as u64) {
            continue;
        }
        for (j, b) in is.iter().enumerate() {
            ctx.inner(j as u64);
            ctx.case();
            for (name, f) in &forms_i {
                ctx.calls(1);
                if let Ok(r) = guard(|| f(a, b)) {
                    ctx.compared(1);
                    let v = int_of(&r);
                    if v.mag.len() >= 2 {
                        ctx.nontrivial(1);
                    }
                    if let Some(w) = observe_int(&r, &v, &refs_i) {
                        ctx.viol(format!("result BigInt {} a={} b={}", name, int_of(a).to_hex(), int_of(b).to_hex()), &w, vec![name.to_string()], "canonical value".into(), w.clone());
                    }
                }
            }
        }
    }
    ctx.sample(|| format!("{} signed values squared through {} BigInt operator forms", is.len(), forms_i.len()));
}

/// comparison agrees with numerical order on every ordered pair of a signed dense family
fn run_order(ctx: &mut Ctx) {
    if !ctx.space("G-order") || !ctx.mine(0) {
        return;
    }
    let mut mags: Vec<Vec<u64>> = alpha::dense(&alpha::SIGMA5, 3);
    for l in 1..=5usize {
        for salt in 0..2u64 {
            mags.push(alpha::lcg_digits(l, salt));
        }
    }
    let mut vals: Vec<(Int, BigInt)> = Vec::new();
    for d in &mags {
        let n = Nat::from_digits(d);
        vals.push((Int::new(false, n.clone()), bi_int(&Int::new(false, n.clone()))));
        if !n.is_zero() {
            vals.push((Int::new(true, n.clone()), bi_int(&Int::new(true, n))));
        }
    }
    for (av, ab) in &vals {
        for (bv, bb) in &vals {
            ctx.case();
            ctx.calls(6);
            ctx.compared(1);
            if av != bv {
                ctx.nontrivial(1);
            }
            let want = av.cmp(bv);
            let r = guard(|| {
                let c = ab.cmp(bb);
                let ok = c == want
                    && ab.partial_cmp(bb) == Some(want)
                    && (ab < bb) == (want == Ordering::Less)
                    && (ab <= bb) == (want != Ordering::Greater)
                    && (ab > bb) == (want == Ordering::Greater)
                    && (ab == bb) == (want == Ordering::Equal)
                    && (ab != bb) == (want != Ordering::Equal)
                    && std::cmp::max(ab, bb) == if want == Ordering::Less { bb } else { ab }
                    && std::cmp::min(ab, bb) == if want == Ordering::Greater { bb } else { ab }
                    && (want != Ordering::Equal || hash_of(ab) == hash_of(bb));
                // the magnitudes through BigUint's own Ord
                let mw = av.mag.cmp(&bv.mag);
                ok && ab.magnitude().cmp(bb.magnitude()) == mw && (ab.magnitude() < bb.magnitude()) == (mw == Ordering::Less)
            });
            if r != Ok(true) {
                ctx.viol(format!("order a={} b={}", av.to_hex(), bv.to_hex()), "cmp / partial_cmp / < <= > == != / max / min disagree with numerical order", vec![], format!("{:?}", want), format!("{:?}", r));
            }
        }
    }
    // sort of the whole family
    let mut sorted: Vec<BigInt> = vals.iter().map(|(_, b)| b.clone()).collect();
    sorted.sort();
    let mut msorted: Vec<Int> = vals.iter().map(|(v, _)| v.clone()).collect();
    msorted.sort_by(|a, b| a.cmp(b));
    ctx.compared(1);
    if sorted.iter().map(int_of).collect::<Vec<_>>() != msorted {
        ctx.viol("sort of the signed dense family".into(), "sort() disagrees with numerical order", vec![], "numerical order".into(), "different".into());
    }
    ctx.sample(|| format!("every ordered pair of {} signed values (Dense(S5,3) + dense LCG up to 5 digits): cmp, partial_cmp, six comparison operators, max, min, sort", vals.len()));
}

fn body(ctx: &mut Ctx) {
    run_hist(ctx);
    run_generators(ctx);
    run_results(ctx);
    run_order(ctx);
}

fn main() {
    runner::main(SPEC, body)
}
