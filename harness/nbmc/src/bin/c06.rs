//! C06 -- text and radix conversions are exact, canonical and mutually inverse.
use nbmc::*;
use num_traits::Num;

#[allow(dead_code)]
mod fmt_table {
    include!("../gen/fmt_table.rs");
}
use fmt_table::{FSpec, SPECS};

const SPEC: Spec = Spec {
    id: "C06",
    engine: "E-prod (exhaustive enumeration of values x radices, format specs, and input strings; real code vs refint Horner evaluation, a padding reference validated against i128, and a grammar recogniser)",
    rule: "output: every (value, radix) of the stated families through to_str_radix / to_radix_le/be / the five formatter traits x 276 literal format specs (52 of them with a precision, which integer formatting ignores); emitted text must be canonical syntax and evaluate (Horner, refint) to the value, and parse back to it. input: every string over a 12-symbol alphabet up to the length bound x 6 radices x both types x 3 entry points against a recogniser of the documented grammar; every digit slice over {0,1,r-2,r-1,r,255} up to length 3 for every radix 2..=256. non-trivial = value >= 2 native digits (output) / string accepted by the grammar (input)",
    assumptions: &[
        "values are the stated families (dense small, powers of the radix +-1 around every chunk boundary, 12 patterns at lengths around the 64-digit big-base threshold), not all integers",
        "the padding reference implements the standard integer padding rules and is validated at start-up against i128/u128 formatting for every spec",
        "refint Horner evaluation is trusted; cross-checked against Python on a transcript slice",
    ],
    bounds_quick: "V8 radix-sparse long values: 6 radices x 4 windows x every alignment of two super-chunks at 66+ native digits; V1 every integer < 65536 x radix 2..=36 (text) and 2..=256 (digits); V2 Dense(S5,3) x all radices; V3 r^k-1,r^k,r^k+1 for k <= 3*power(r)+2 and at 62..66 / 127..130 native digits, all radices 2..=36 text and 2..=256 digits; V4 12 patterns x every length 1..=70 and {100,129,257} x all radices; V6 dense LCG values of every length 1..=70; V5 big-base powers, all radices; F 276 specs x 5 pinned traits (+ Debug, informational) x 16 values; P1 all strings of length <= 5 over 12 symbols (+bytes <= 4 over 14 byte values); P2 well-formed long inputs, all radices 2..=36; P3 all radices 2..=256; V7 values of 300 and 1100 native digits (dense, all-ones, power of two) x 12 radices",
    bounds_thorough: "V1 every integer < 2^18; V2; V3 also at 255..258 and 400 native digits; V4 30 lengths up to 1025 (every sqrt boundary of the big-base target length); V5; F; P1 length <= 6 (bytes <= 5); P2; P3; V7 up to 4099 digits",
    hang_secs: 180,
    probes: Some(probes),
    max_workers: 16,
};

fn power_of(r: u64) -> (u64, usize) {
    let mut base = r;
    let mut k = 1;
    while let Some(nb) = base.checked_mul(r) {
        base = nb;
        k += 1;
    }
    (base, k)
}

fn digit_char(d: u8, upper: bool) -> char {
    if d < 10 {
        (b'0' + d) as char
    } else if upper {
        (b'A' + d - 10) as char
    } else {
        (b'a' + d - 10) as char
    }
}

/// canonical-syntax check + Horner value of an emitted text.  Returns Err(reason).
fn eval_text(s: &str, radix: u32, upper: bool, want: &Int) -> Result<(), String> {
    let b = s.as_bytes();
    let (neg, body) = if b.first() == Some(&b'-') { (true, &b[1..]) } else { (false, b) };
    if body.is_empty() {
        return Err("no digits".into());
    }
    if body.len() > 1 && body[0] == b'0' {
        return Err("leading zero".into());
    }
    let mut ds = Vec::with_capacity(body.len());
    for &c in body {
        let d = match c {
            b'0'..=b'9' => c - b'0',
            b'a'..=b'z' if !upper => c - b'a' + 10,
            b'A'..=b'Z' if upper => c - b'A' + 10,
            _ => return Err(format!("character {:?} not allowed (upper={})", c as char, upper)),
        };
        if d as u32 >= radix {
            return Err(format!("digit {} out of range for radix {}", d, radix));
        }
        ds.push(d);
    }
    let v = Nat::from_radix_be_fast(&ds, radix);
    if neg && v.is_zero() {
        return Err("negative zero".into());
    }
    if neg != want.neg || v != want.mag {
        return Err(format!("text denotes {}{}", if neg { "-" } else { "" }, v.to_hex()));
    }
    Ok(())
}

/// reference for the standard integer padding rules applied to sign + prefix + digits
fn ref_pad(sp: &FSpec, nonneg: bool, prefix: &str, digits: &str) -> String {
    let sign = if !nonneg {
        "-"
    } else if sp.plus {
        "+"
    } else {
        ""
    };
    let prefix = if sp.alt { prefix } else { "" };
    let len = sign.len() + prefix.len() + digits.chars().count();
    match sp.width {
        None => format!("{}{}{}", sign, prefix, digits),
        Some(w) if w <= len => format!("{}{}{}", sign, prefix, digits),
        Some(w) => {
            let pad = w - len;
            if sp.zero {
                format!("{}{}{}{}", sign, prefix, "0".repeat(pad), digits)
            } else {
                let fill = sp.fill.unwrap_or(' ');
                let (l, r) = match sp.align {
                    1 => (0, pad),
                    2 => (pad / 2, (pad + 1) / 2),
                    _ => (pad, 0), // default for numbers: right
                };
                let f = |n: usize| std::iter::repeat(fill).take(n).collect::<String>();
                format!("{}{}{}{}{}", f(l), sign, prefix, digits, f(r))
            }
        }
    }
}

fn magnitude_text(m: &Nat, radix: u32, upper: bool) -> String {
    m.to_radix_le(radix).iter().rev().map(|&d| digit_char(d as u8, upper)).collect()
}

/// validate the padding reference against std's own integer formatting
fn validate_ref_pad() {
    for v in [0i128, 1, 255, 1 << 64, (1 << 64) - 1, 100000000000000000000i128, -1, -255, -(1 << 64)] {
        let n = Nat::from_u128(v.unsigned_abs());
        let disp = fmt_table::fmt_display(&v);
        for (i, sp) in SPECS.iter().enumerate() {
            let want = ref_pad(sp, v >= 0, "", &magnitude_text(&n, 10, false));
            assert_eq!(disp[i], want, "padding reference disagrees with std Display for {:?} spec {:?}", v, sp.text);
        }
        if v >= 0 {
            let u = v as u128;
            for (tab, radix, upper, prefix) in [(fmt_table::fmt_binary(&u), 2, false, "0b"), (fmt_table::fmt_octal(&u), 8, false, "0o"), (fmt_table::fmt_lower_hex(&u), 16, false, "0x"), (fmt_table::fmt_upper_hex(&u), 16, true, "0x")] {
                for (i, sp) in SPECS.iter().enumerate() {
                    let want = ref_pad(sp, true, prefix, &magnitude_text(&n, radix, upper));
                    assert_eq!(tab[i], want, "padding reference disagrees with std radix formatting for {:?} spec {:?}", v, sp.text);
                }
            }
        }
    }
}

fn out_value(ctx: &mut Ctx, v: &Int, text_radices: &[u32], digit_radices: &[u32]) {
    ctx.case();
    if v.mag.len() >= 2 {
        ctx.nontrivial(1);
    }
    let x = bi_int(v);
    let u = bu_nat(&v.mag);
    let args = || vec![format!("v={}", v.to_hex())];
    for &r in text_radices {
        // BigInt text
        let got = call_str(ctx, "BigInt::to_str_radix", || x.to_str_radix(r));
        ctx.compared(1);
        match got {
            Out::Ret(s) => {
                if let Err(e) = eval_text(&s, r, false, v) {
                    ctx.viol(format!("BigInt to_str_radix({}) v={}", r, v.to_hex()), &format!("emitted text is not the canonical representation: {}", e), args(), "canonical text".into(), s.clone());
                }
                ctx.outcome_str(&s);
                // round trip
                let back = call(ctx, || BigInt::from_str_radix(&s, r));
                ctx.compared(1);
                match back {
                    Out::Ret(Ok(y)) if y == x => {}
                    other => ctx.viol(format!("BigInt from_str_radix(to_str_radix) radix={} v={}", r, v.to_hex()), "parsing the emitted text does not return the original value", args(), v.to_hex(), format!("{:?}", other)),
                }
                if v.mag.len() >= 2 && r == 10 {
                    ctx.tr(|| format!("dec {} {}", v.mag.to_hex(), v.mag.to_dec()));
                }
            }
            Out::Panic(m) => ctx.viol(format!("BigInt to_str_radix({}) v={}", r, v.to_hex()), "unexpected panic", args(), "text".into(), m),
        }
        if !v.neg {
            let got = call_str(ctx, "BigUint::to_str_radix", || u.to_str_radix(r));
            ctx.compared(1);
            match got {
                Out::Ret(s) => {
                    if let Err(e) = eval_text(&s, r, false, v) {
                        ctx.viol(format!("BigUint to_str_radix({}) v={}", r, v.to_hex()), &format!("emitted text is not the canonical representation: {}", e), args(), "canonical text".into(), s.clone());
                    }
                    let back = call(ctx, || BigUint::from_str_radix(&s, r));
                    ctx.compared(1);
                    match back {
                        Out::Ret(Ok(y)) if y == u => {}
                        other => ctx.viol(format!("BigUint from_str_radix(to_str_radix) radix={} v={}", r, v.to_hex()), "parsing the emitted text does not return the original value", args(), v.to_hex(), format!("{:?}", other)),
                    }
                }
                Out::Panic(m) => ctx.viol(format!("BigUint to_str_radix({}) v={}", r, v.to_hex()), "unexpected panic", args(), "text".into(), m),
            }
        }
    }
    for &r in digit_radices {
        // numeric digit vectors
        let chk = |ctx: &mut Ctx, form: &str, le: Vec<u8>| {
            ctx.compared(1);
            let mut be = le.clone();
            be.reverse();
            let ok_len = if v.is_zero() { be == vec![0] } else { be[0] != 0 };
            let in_range = r == 256 || be.iter().all(|&d| (d as u32) < r);
            let val = if in_range { Nat::from_radix_be_fast(&be, r) } else { Nat::zero() };
            if !ok_len || !in_range || val != v.mag {
                ctx.viol(format!("{}({}) v={}", form, r, v.to_hex()), "digit vector is not the canonical base-r representation", vec![format!("v={}", v.to_hex())], "canonical digits".into(), format!("{:?}", &le[..le.len().min(40)]));
            }
        };
        match call(ctx, || u.to_radix_le(r)) {
            Out::Ret(d) => {
                chk(ctx, "BigUint to_radix_le", d.clone());
                // round trip both directions
                let b1 = call(ctx, || BigUint::from_radix_le(&d, r));
                ctx.compared(1);
                if !matches!(&b1, Out::Ret(Some(y)) if *y == u) {
                    ctx.viol(format!("BigUint from_radix_le(to_radix_le) radix={} v={}", r, v.to_hex()), "round trip failed", args(), v.mag.to_hex(), format!("{:?}", b1));
                }
            }
            Out::Panic(m) => ctx.viol(format!("BigUint to_radix_le({}) v={}", r, v.to_hex()), "unexpected panic", args(), "digits".into(), m),
        }
        match call(ctx, || u.to_radix_be(r)) {
            Out::Ret(mut d) => {
                let b1 = call(ctx, || BigUint::from_radix_be(&d, r));
                ctx.compared(1);
                if !matches!(&b1, Out::Ret(Some(y)) if *y == u) {
                    ctx.viol(format!("BigUint from_radix_be(to_radix_be) radix={} v={}", r, v.to_hex()), "round trip failed", args(), v.mag.to_hex(), format!("{:?}", b1));
                }
                d.reverse();
                chk(ctx, "BigUint to_radix_be", d);
            }
            Out::Panic(m) => ctx.viol(format!("BigUint to_radix_be({}) v={}", r, v.to_hex()), "unexpected panic", args(), "digits".into(), m),
        }
        match call(ctx, || x.to_radix_le(r)) {
            Out::Ret((s, d)) => {
                let want_sign = if v.is_zero() {
                    Sign::NoSign
                } else if v.neg {
                    Sign::Minus
                } else {
                    Sign::Plus
                };
                if s != want_sign {
                    ctx.viol(format!("BigInt to_radix_le({}) sign v={}", r, v.to_hex()), "wrong sign", args(), format!("{:?}", want_sign), format!("{:?}", s));
                }
                chk(ctx, "BigInt to_radix_le", d.clone());
                let b1 = call(ctx, || BigInt::from_radix_le(s, &d, r));
                ctx.compared(1);
                if !matches!(&b1, Out::Ret(Some(y)) if *y == x) {
                    ctx.viol(format!("BigInt from_radix_le(to_radix_le) radix={} v={}", r, v.to_hex()), "round trip failed", args(), v.to_hex(), format!("{:?}", b1));
                }
            }
            Out::Panic(m) => ctx.viol(format!("BigInt to_radix_le({}) v={}", r, v.to_hex()), "unexpected panic", args(), "digits".into(), m),
        }
        match call(ctx, || x.to_radix_be(r)) {
            Out::Ret((_, mut d)) => {
                d.reverse();
                chk(ctx, "BigInt to_radix_be", d);
            }
            Out::Panic(m) => ctx.viol(format!("BigInt to_radix_be({}) v={}", r, v.to_hex()), "unexpected panic", args(), "digits".into(), m),
        }
    }
}

/// one formatter table, produced under a panic guard and with every String validated as UTF-8
fn tab(ctx: &mut Ctx, name: &str, v: &Int, f: impl FnOnce() -> Vec<String>) -> Vec<String> {
    match guard(f) {
        Ok(t) => clean_strs(ctx, name, t),
        Err(m) => {
            ctx.viol(format!("{} formatter panic v={}", name, v.to_hex()), "formatter panicked", vec![format!("v={}", v.to_hex())], "formatted text".into(), m);
            vec![String::new(); SPECS.len()]
        }
    }
}
fn fmt_value(ctx: &mut Ctx, v: &Int) {
    ctx.case();
    ctx.nontrivial(1);
    let x = bi_int(v);
    let u = bu_nat(&v.mag);
    let tabs_i: [(&str, Vec<String>, u32, bool, &str); 6] = [
        ("Display", tab(ctx, "BigInt Display", v, || fmt_table::fmt_display(&x)), 10, false, ""),
        ("Binary", tab(ctx, "BigInt Binary", v, || fmt_table::fmt_binary(&x)), 2, false, "0b"),
        ("Octal", tab(ctx, "BigInt Octal", v, || fmt_table::fmt_octal(&x)), 8, false, "0o"),
        ("LowerHex", tab(ctx, "BigInt LowerHex", v, || fmt_table::fmt_lower_hex(&x)), 16, false, "0x"),
        ("UpperHex", tab(ctx, "BigInt UpperHex", v, || fmt_table::fmt_upper_hex(&x)), 16, true, "0x"),
        ("Debug", tab(ctx, "BigInt Debug", v, || fmt_table::fmt_debug(&x)), 10, false, ""),
    ];
    ctx.calls(6 * SPECS.len() as u64);
    for (name, tab, radix, upper, prefix) in tabs_i.iter() {
        let digits = magnitude_text(&v.mag, *radix, *upper);
        for (i, sp) in SPECS.iter().enumerate() {
            ctx.compared(1);
            let want = ref_pad(sp, !v.neg, prefix, &digits);
            if tab[i] != want && *name == "Debug" {
                // the property names Display/Binary/Octal/LowerHex/UpperHex; Debug output is not pinned by it
                ctx.count("debug_format_differs_from_display_rules", 1);
            } else if tab[i] != want {
                ctx.viol(format!("BigInt {} spec '{}' v={}", name, sp.text, v.to_hex()), "formatted text differs from the standard integer padding rules", vec![format!("spec={}", sp.text), format!("v={}", v.to_hex())], want, tab[i].clone());
            }
        }
    }
    if !v.neg {
        let tabs_u: [(&str, Vec<String>, u32, bool, &str); 6] = [
            ("Display", tab(ctx, "BigUint Display", v, || fmt_table::fmt_display(&u)), 10, false, ""),
            ("Binary", tab(ctx, "BigUint Binary", v, || fmt_table::fmt_binary(&u)), 2, false, "0b"),
            ("Octal", tab(ctx, "BigUint Octal", v, || fmt_table::fmt_octal(&u)), 8, false, "0o"),
            ("LowerHex", tab(ctx, "BigUint LowerHex", v, || fmt_table::fmt_lower_hex(&u)), 16, false, "0x"),
            ("UpperHex", tab(ctx, "BigUint UpperHex", v, || fmt_table::fmt_upper_hex(&u)), 16, true, "0x"),
            ("Debug", tab(ctx, "BigUint Debug", v, || fmt_table::fmt_debug(&u)), 10, false, ""),
        ];
        ctx.calls(6 * SPECS.len() as u64);
        for (name, tab, radix, upper, prefix) in tabs_u.iter() {
            let digits = magnitude_text(&v.mag, *radix, *upper);
            for (i, sp) in SPECS.iter().enumerate() {
                ctx.compared(1);
                let want = ref_pad(sp, true, prefix, &digits);
                if tab[i] != want && *name == "Debug" {
                    ctx.count("debug_format_differs_from_display_rules", 1);
                } else if tab[i] != want {
                    ctx.viol(format!("BigUint {} spec '{}' v={}", name, sp.text, v.to_hex()), "formatted text differs from the standard integer padding rules", vec![format!("spec={}", sp.text), format!("v={}", v.to_hex())], want, tab[i].clone());
                }
            }
        }
    }
}

// ---------------------------------------------------------------- input side

/// recogniser of the documented grammar: [sign] digit (digit | '_')*; sign is '+' (BigUint) or
/// '+'/'-' (BigInt); digits below the radix in either case.  Returns the denoted value.
fn recognise(s: &[u8], radix: u32, signed: bool) -> Option<Int> {
    let mut i = 0;
    let mut neg = false;
    if i < s.len() && (s[i] == b'+' || (signed && s[i] == b'-')) {
        neg = s[i] == b'-';
        i += 1;
    }
    let body = &s[i..];
    if body.is_empty() {
        return None;
    }
    let mut ds = Vec::new();
    for (k, &c) in body.iter().enumerate() {
        let d = match c {
            b'0'..=b'9' => c - b'0',
            b'a'..=b'z' => c - b'a' + 10,
            b'A'..=b'Z' => c - b'A' + 10,
            b'_' if k > 0 => continue,
            _ => return None,
        };
        if d as u32 >= radix {
            return None;
        }
        ds.push(d);
    }
    Some(Int::new(neg, Nat::from_radix_be_fast(&ds, radix)))
}

fn parse_case(ctx: &mut Ctx, bytes: &[u8], radices: &[u32]) {
    ctx.case();
    let as_str = std::str::from_utf8(bytes).ok();
    let mut accepted = false;
    for &r in radices {
        for signed in [false, true] {
            let want = if as_str.is_some() { recognise(bytes, r, signed) } else { None };
            accepted |= want.is_some();
            let key = |form: &str| format!("{} radix={} input={:02x?}", form, r, bytes);
            let cmp = |ctx: &mut Ctx, form: &str, got: Out<Option<Int>>| {
                ctx.compared(1);
                match got {
                    Out::Ret(g) => {
                        if g != want {
                            ctx.viol(key(form), "parse result differs from the documented grammar", vec![format!("{:?}", String::from_utf8_lossy(bytes))], format!("{:?}", want.as_ref().map(|w| w.to_hex())), format!("{:?}", g.as_ref().map(|w| w.to_hex())));
                        }
                    }
                    Out::Panic(m) => ctx.viol(key(form), "parser panicked", vec![format!("{:?}", String::from_utf8_lossy(bytes))], format!("{:?}", want.as_ref().map(|w| w.to_hex())), m),
                }
            };
            if signed {
                let g = call(ctx, || BigInt::parse_bytes(bytes, r).map(|x| int_of(&x)));
                cmp(ctx, "BigInt::parse_bytes", g);
                if let Some(s) = as_str {
                    let g = call(ctx, || BigInt::from_str_radix(s, r).ok().map(|x| int_of(&x)));
                    cmp(ctx, "BigInt::from_str_radix", g);
                    if r == 10 {
                        let g = call(ctx, || s.parse::<BigInt>().ok().map(|x| int_of(&x)));
                        cmp(ctx, "BigInt::from_str", g);
                    }
                }
            } else {
                let g = call(ctx, || BigUint::parse_bytes(bytes, r).map(|x| Int::from_nat(nat_of(&x))));
                cmp(ctx, "BigUint::parse_bytes", g);
                if let Some(s) = as_str {
                    let g = call(ctx, || BigUint::from_str_radix(s, r).ok().map(|x| Int::from_nat(nat_of(&x))));
                    cmp(ctx, "BigUint::from_str_radix", g);
                    if r == 10 {
                        let g = call(ctx, || s.parse::<BigUint>().ok().map(|x| Int::from_nat(nat_of(&x))));
                        cmp(ctx, "BigUint::from_str", g);
                    }
                }
            }
        }
    }
    if accepted {
        ctx.nontrivial(1);
    }
}

fn odometer(syms: usize, len: usize, mut f: impl FnMut(&[usize])) {
    let mut idx = vec![0usize; len];
    loop {
        f(&idx);
        let mut p = 0;
        loop {
            if p == len {
                return;
            }
            idx[p] += 1;
            if idx[p] < syms {
                break;
            }
            idx[p] = 0;
            p += 1;
        }
    }
}

fn body(ctx: &mut Ctx) {
    let tier = ctx.tier;
    ctx.set_transcript_every(tier.pick(3, 17));
    validate_ref_pad();
    let all_text: Vec<u32> = (2..=36).collect();
    let all_digit: Vec<u32> = (2..=256).collect();
    let some_text: Vec<u32> = vec![2, 3, 7, 8, 10, 16, 32, 36];
    let some_digit: Vec<u32> = vec![3, 10, 100, 128, 255, 256];

    // V1: dense small integers
    if ctx.space("V1") {
        let n = tier.pick(65536u64, 1u64 << 18);
        for i in 0..n {
            if !ctx.mine(i) {
                continue;
            }
            for neg in [false, true] {
                if neg && i == 0 {
                    continue;
                }
                out_value(ctx, &Int::new(neg, Nat::from_u64(i)), &all_text, if neg { &[] } else { &all_digit });
            }
            if i == 4095 {
                ctx.sample(|| "v=+-4095 through to_str_radix for radix 2..=36 and to_radix_le/be for radix 2..=256, with round trips".to_string());
            }
        }
    }
    // V2
    if ctx.space("V2") {
        let mut v2 = alpha::dense(&alpha::SIGMA5, 3);
        v2.extend(alpha::dense(&alpha::SIGMA16, 2).into_iter().filter(|d| !d.is_empty()));
        for (i, d) in v2.iter().enumerate() {
            if !ctx.mine(i as u64) {
                continue;
            }
            for neg in [false, true] {
                out_value(ctx, &Int::new(neg, Nat::from_digits(d)), &all_text, if neg { &[] } else { &all_digit });
            }
            ctx.sample(|| format!("v=+-{} all radices", hexs(d)));
        }
    }
    // V3: powers of the radix around every chunk boundary and around the big-base threshold
    if ctx.space("V3") {
        let rads: Vec<u32> = all_digit.clone();
        for (i, &r) in rads.iter().enumerate() {
            if !ctx.mine(i as u64) {
                continue;
            }
            let (_, pw) = power_of(r as u64);
            let mut ks: Vec<usize> = (0..=3 * pw + 2).collect();
            // exponents that put r^k at 62..66 (and 127..130) native digits
            let bits_per = (r as f64).log2();
            let mut targets = vec![62usize, 63, 64, 65, 66];
            targets.extend([127, 128, 129, 130]);
            if tier == Tier::Thorough {
                targets.extend([255, 256, 257, 258, 400]);
            }
            for nd in targets {
                let k = ((nd as f64) * 64.0 / bits_per) as usize;
                ks.extend([k.saturating_sub(1), k, k + 1]);
            }
            ks.sort();
            ks.dedup();
            let rn = Nat::from_u64(r as u64);
            let mut p = Nat::one();
            let mut cur = 0usize;
            for &k in &ks {
                while cur < k {
                    p = p.mul(&rn);
                    cur += 1;
                }
                ctx.inner(k as u64);
                let tr: Vec<u32> = if r <= 36 { vec![r] } else { vec![] };
                for v in [p.sub(&Nat::one()).unwrap(), p.clone(), p.add(&Nat::one())] {
                    out_value(ctx, &Int::new(false, v.clone()), &tr, &[r]);
                    if r <= 36 {
                        out_value(ctx, &Int::new(true, v), &tr, &[]);
                    }
                }
            }
            ctx.sample(|| format!("radix {}: r^k-1, r^k, r^k+1 for {} exponents k up to {} (power(r)={})", r, ks.len(), ks.last().unwrap(), pw));
        }
    }
    // V4: patterns around the 64-digit threshold
    if ctx.space("V4") {
        let mut lens: Vec<usize> = (1..=70).collect();
        lens.extend([100usize, 129, 257]);
        if tier == Tier::Thorough {
            lens.extend([62, 67, 80, 81, 120, 121, 143, 144, 145, 168, 169, 170, 195, 196, 197, 224, 225, 226, 256, 289, 290, 513, 1025]);
        }
        let mut o = 0u64;
        for &l in &lens {
            for p in 0..alpha::NPAT {
                let take = ctx.mine(o);
                o += 1;
                if !take {
                    continue;
                }
                let v = Nat::from_digits(&alpha::pat(l, p));
                let (tr, dr): (&[u32], &[u32]) = (&all_text, &all_digit);
                let _ = (&some_text, &some_digit);
                out_value(ctx, &Int::new(false, v.clone()), tr, dr);
                out_value(ctx, &Int::new(true, v), &[10, 16], &[]);
                ctx.sample(|| format!("pattern {} at {} native digits", alpha::PAT_NAMES[p], l));
            }
        }
    }
    // V6: dense LCG values of every length
    if ctx.space("V6") {
        let lmax = tier.pick(70usize, 140usize);
        for l in 1..=lmax {
            if !ctx.mine(l as u64) {
                continue;
            }
            for salt in 0..2u64 {
                let v = Nat::from_digits(&alpha::lcg_digits(l, salt));
                out_value(ctx, &Int::new(false, v.clone()), &all_text, if l <= 20 || l % 16 <= 1 { &all_digit } else { &some_digit });
                out_value(ctx, &Int::new(true, v), &[7, 10, 16, 32, 36], &[]);
            }
            if l == 65 {
                ctx.sample(|| "dense LCG values of 65 native digits: every text radix, digit radices, round trips".to_string());
            }
        }
    }
    // V7: long values (hundreds to thousands of native digits: many chunks of the big-base paths)
    if ctx.space("V7") {
        let lens: Vec<usize> = tier.pick(vec![300, 1100], vec![300, 1100, 2100, 4099]);
        let mut o = 0u64;
        for &l in &lens {
            for shape in 0..3 {
                let take = ctx.mine(o);
                o += 1;
                if !take {
                    continue;
                }
                let d: Vec<u64> = match shape {
                    0 => alpha::lcg_digits(l, 77),
                    1 => vec![alpha::M; l],
                    _ => {
                        let mut v = vec![0u64; l];
                        v[l - 1] = 1;
                        v
                    }
                };
                let v = Nat::from_digits(&d);
                out_value(ctx, &Int::new(false, v.clone()), &[2, 3, 8, 10, 16, 32, 36], &[7, 100, 128, 255, 256]);
                out_value(ctx, &Int::new(true, v), &[10, 32], &[]);
                ctx.sample(|| format!("{}-digit value (shape {}) through radices 2,3,8,10,16,32,36 (text) and 7,100,128,255,256 (digits), round trips", l, shape));
            }
        }
    }
    // V5: powers of the super-chunk base
    if ctx.space("V5") {
        let rads: &[u32] = &all_digit;
        for (i, &r) in rads.iter().enumerate() {
            if r.is_power_of_two() {
                continue;
            }
            if !ctx.mine(i as u64) {
                continue;
            }
            let (base, _) = power_of(r as u64);
            let b = Nat::from_u64(base);
            for t in [3u32, 4] {
                let mut bb = b.clone();
                for _ in 0..t {
                    bb = bb.mul(&bb);
                }
                let mut x = bb.clone();
                for _j in 2..=20 {
                    x = x.mul(&bb);
                    if x.len() < 62 {
                        continue;
                    }
                    if x.len() > 140 {
                        break;
                    }
                    let tr: Vec<u32> = if r <= 36 { vec![r] } else { vec![] };
                    for v in [x.sub(&Nat::one()).unwrap(), x.clone(), x.add(&Nat::one())] {
                        out_value(ctx, &Int::new(false, v), &tr, &[r]);
                    }
                }
            }
            ctx.sample(|| format!("radix {}: (base^(2^t))^j and +-1 for t in {{3,4}} at 62..140 native digits", r));
        }
    }
    // V8: values that are sparse *in the output radix*: a short window of radix-r digits slid through every alignment of
    // two super-chunks (8 chunks of `power` digits each at 64..255 native digits) below a fixed top part that keeps the
    // value on the big-base path.  The intermediate remainders of the chunked conversion (a super-chunk remainder that
    // shrinks to one native digit, a chunk that is exactly 1 or exactly base-1, a run of zero chunks starting anywhere)
    // depend on that alignment, which no binary-structured family controls.
    if ctx.space("V8") {
        let rads: [u32; 6] = [10, 3, 7, 36, 100, 255];
        for (i, &r) in rads.iter().enumerate() {
            if !ctx.mine(i as u64) {
                continue;
            }
            let (base, power) = power_of(r as u64);
            let rn = Nat::from_u64(r as u64);
            let span = 2 * 8 * power + 3;
            let mut top = Nat::from_u64(987654321);
            let mut nd = 0usize;
            while top.len() < 66 || nd < span + 2 * power + 1 {
                top = top.mul(&rn);
                nd += 1;
            }
            let tr: Vec<u32> = if r <= 36 { vec![r] } else { vec![] };
            let b = Nat::from_u64(base);
            let windows: Vec<Nat> = vec![
                Nat::one(),
                b.add(&Nat::from_u64(base / 5 + 7)),
                b.mul(&Nat::from_u64(r as u64 - 1)).add(&Nat::from_u64(base - 1)),
                b.add(&b),
            ];
            let mut rp = Nat::one();
            for _p in 0..span {
                for w in &windows {
                    let v = top.add(&w.mul(&rp));
                    out_value(ctx, &Int::new(false, v), &tr, &[r]);
                }
                rp = rp.mul(&rn);
            }
            ctx.sample(|| format!("radix {}: 987654321*r^{} + w*r^p for 4 windows w (1, chunk 1 + small chunk, max digit + max chunk, chunk 2) x every p < {} (all alignments of two super-chunks), {} native digits", r, nd, span, top.len()));
        }
    }
    // F: formatting flags
    if ctx.space("F") {
        let m = alpha::M;
        let vals = vec![
            Int::zero(),
            Int::from_i64(1),
            Int::from_i64(-1),
            Int::from_i64(255),
            Int::from_i64(-255),
            Int::new(false, Nat::from_digits(&[0, 1])),
            Int::new(true, Nat::from_digits(&[0, 1])),
            Int::new(false, Nat::from_digits(&[m])),
            Int::new(true, Nat::from_digits(&[m])),
            Int::from_i128(100000000000000000000),
            Int::from_i128(-100000000000000000000),
            Int::new(false, Nat::from_digits(&alpha::pat(3, 10))),
            Int::new(true, Nat::from_digits(&alpha::pat(3, 8))),
            Int::from_i64(1234567),
            Int::from_i64(-123456),
            Int::new(false, Nat::from_digits(&alpha::pat(70, 10))),
        ];
        for (i, v) in vals.iter().enumerate() {
            if !ctx.mine(i as u64) {
                continue;
            }
            fmt_value(ctx, v);
            ctx.sample(|| format!("v={} through Display/Binary/Octal/LowerHex/UpperHex/Debug x {} literal format specs (e.g. {:?})", v.to_hex(), SPECS.len(), SPECS[100].text));
        }
    }
    // P1: language membership
    if ctx.space("P1") {
        let syms: Vec<&[u8]> = vec![b"+", b"-", b"_", b"0", b"1", b"9", b"a", b"Z", b"z", b"@", b" ", "é".as_bytes()];
        let maxlen = tier.pick(5usize, 6usize);
        let radices = [2u32, 8, 10, 16, 35, 36];
        let mut o = 0u64;
        parse_case(ctx, b"", &radices);
        for len in 1..=maxlen {
            odometer(syms.len(), len, |idx| {
                let take = ctx.mine(o);
                o += 1;
                if !take {
                    return;
                }
                let mut s = Vec::new();
                for &i in idx.iter().rev() {
                    s.extend_from_slice(syms[i]);
                }
                parse_case(ctx, &s, &radices);
                if o % 5003 == 0 {
                    ctx.sample(|| format!("input {:?} x radices {:?} x {{BigUint,BigInt}} x {{parse_bytes, from_str_radix, FromStr}}", String::from_utf8_lossy(&s), radices));
                }
            });
        }
    }
    // P1b: raw byte strings (non UTF-8)
    if ctx.space("P1b") {
        let syms: [u8; 14] = [b'+', b'-', b'_', b'0', b'1', b'9', b'a', b'Z', b'z', b'@', b' ', 0xC3, 0xA9, 0xFF];
        let maxlen = tier.pick(4usize, 5usize);
        let radices = [2u32, 10, 16, 36];
        let mut o = 0u64;
        for len in 1..=maxlen {
            odometer(syms.len(), len, |idx| {
                let take = ctx.mine(o);
                o += 1;
                if !take {
                    return;
                }
                let s: Vec<u8> = idx.iter().rev().map(|&i| syms[i]).collect();
                parse_case(ctx, &s, &radices);
                if o % 997 == 0 {
                    ctx.sample(|| format!("byte input {:02x?} through parse_bytes", s));
                }
            });
        }
    }
    // P2: well-formed long inputs at every residue of the chunk size
    if ctx.space("P2") {
        let rads: &[u32] = &all_text;
        for (i, &r) in rads.iter().enumerate() {
            if !ctx.mine(i as u64) {
                continue;
            }
            let (_, pw) = power_of(r as u64);
            let maxd = (r - 1) as u8;
            for len in 1..=(3 * pw + 1) {
                ctx.inner(len as u64);
                let pats: Vec<Vec<u8>> = vec![
                    vec![maxd; len],
                    {
                        let mut v = vec![0u8; len];
                        v[0] = 1;
                        v
                    },
                    {
                        let mut v = vec![0u8; len];
                        v[len - 1] = 1;
                        v
                    },
                    (0..len).map(|k| ((k * 7 + 3) % r as usize) as u8).collect(),
                ];
                for ds in &pats {
                    let val = Nat::from_radix_be_fast(ds, r);
                    let plain: String = ds.iter().map(|&d| digit_char(d, false)).collect();
                    let upper: String = ds.iter().map(|&d| digit_char(d, true)).collect();
                    let mixed: String = ds.iter().enumerate().map(|(k, &d)| digit_char(d, k % 2 == 0)).collect();
                    let unders: String = ds.iter().map(|&d| format!("{}_", digit_char(d, false))).collect();
                    let variants = vec![plain.clone(), upper, mixed, unders, format!("0{}", plain), format!("00000{}", plain), format!("+{}", plain), format!("0_0{}", plain)];
                    for s in &variants {
                        ctx.case();
                        ctx.nontrivial(1);
                        let g = call(ctx, || BigUint::from_str_radix(s, r));
                        ctx.compared(1);
                        match g {
                            Out::Ret(Ok(x)) if nat_chk(ctx, "BigUint::from_str_radix", &x) == val => {}
                            other => ctx.viol(format!("BigUint::from_str_radix radix={} s={}", r, s), "well-formed input not parsed to the denoted value", vec![s.clone()], val.to_hex(), format!("{:?}", other)),
                        }
                        let g = call(ctx, || BigUint::parse_bytes(s.as_bytes(), r));
                        ctx.compared(1);
                        match g {
                            Out::Ret(Some(x)) if nat_of(&x) == val => {}
                            other => ctx.viol(format!("BigUint::parse_bytes radix={} s={}", r, s), "well-formed input not parsed to the denoted value", vec![s.clone()], val.to_hex(), format!("{:?}", other)),
                        }
                        let neg = format!("-{}", s.trim_start_matches('+'));
                        let g = call(ctx, || BigInt::from_str_radix(&neg, r));
                        ctx.compared(1);
                        let wanti = Int::new(true, val.clone());
                        match g {
                            Out::Ret(Ok(x)) if int_chk(ctx, "BigInt::from_str_radix", &x) == wanti => {}
                            other => ctx.viol(format!("BigInt::from_str_radix radix={} s={}", r, neg), "well-formed input not parsed to the denoted value", vec![neg.clone()], wanti.to_hex(), format!("{:?}", other)),
                        }
                    }
                }
            }
            ctx.sample(|| format!("radix {}: digit strings of every length 1..={} x 4 patterns x 8 spellings (case, underscores, leading zeros, '+', '-')", r, 3 * pw + 1));
        }
    }
    // P3: from_radix_le/be over every radix
    if ctx.space("P3") {
        for r in 2u32..=256 {
            if !ctx.mine(r as u64) {
                continue;
            }
            let mut syms: Vec<u8> = vec![0, 1, (r.saturating_sub(2)).min(255) as u8, (r - 1).min(255) as u8, r.min(255) as u8, 255];
            syms.sort();
            syms.dedup();
            // empty slice means zero
            for f in 0..2 {
                let g = call(ctx, || if f == 0 { BigUint::from_radix_le(&[], r) } else { BigUint::from_radix_be(&[], r) });
                ctx.compared(1);
                if !matches!(&g, Out::Ret(Some(x)) if nat_of(x).is_zero()) {
                    ctx.viol(format!("from_radix empty radix={}", r), "empty digit slice must denote zero", vec![], "Some(0)".into(), format!("{:?}", g));
                }
            }
            for len in 1..=3 {
                odometer(syms.len(), len, |idx| {
                    ctx.case();
                    let le: Vec<u8> = idx.iter().map(|&i| syms[i]).collect();
                    let ok = le.iter().all(|&d| (d as u32) < r);
                    if ok {
                        ctx.nontrivial(1);
                    }
                    let mut be = le.clone();
                    be.reverse();
                    let want = if ok { Some(Nat::from_radix_be(&be, r)) } else { None };
                    let g1 = call(ctx, || BigUint::from_radix_le(&le, r).map(|x| nat_of(&x)));
                    let g2 = call(ctx, || BigUint::from_radix_be(&be, r).map(|x| nat_of(&x)));
                    let g3 = call(ctx, || BigInt::from_radix_le(Sign::Minus, &le, r).map(|x| int_of(&x)));
                    let g4 = call(ctx, || BigInt::from_radix_be(Sign::Plus, &be, r).map(|x| int_of(&x)));
                    ctx.compared(4);
                    let wm = want.clone().map(|w| Int::new(true, w));
                    let wp = want.clone().map(|w| Int::new(false, w));
                    if g1 != Out::Ret(want.clone()) || g2 != Out::Ret(want.clone()) || g3 != Out::Ret(wm) || g4 != Out::Ret(wp) {
                        ctx.viol(format!("from_radix radix={} digits_le={:?}", r, le), "digit slice not imported as documented (accept iff all digits below the radix)", vec![format!("{:?}", le)], format!("{:?}", want.map(|w| w.to_hex())), format!("{:?} {:?} {:?} {:?}", g1, g2, g3, g4));
                    }
                });
            }
            // long slices at every residue of the chunk size
            let (_, pw) = power_of(r as u64);
            let maxd = (r - 1).min(255) as u8;
            for len in 4..=(3 * pw + 1) {
                for pat in 0..3 {
                    ctx.case();
                    ctx.nontrivial(1);
                    let be: Vec<u8> = match pat {
                        0 => vec![maxd; len],
                        1 => {
                            let mut v = vec![0u8; len];
                            v[0] = 1;
                            v
                        }
                        _ => {
                            let mut v: Vec<u8> = (0..len).map(|k| ((k * 5 + 1) % r as usize) as u8).collect();
                            v[0] = 0; // leading zero digit
                            v
                        }
                    };
                    let mut le = be.clone();
                    le.reverse();
                    let want = Nat::from_radix_be_fast(&be, r);
                    let g1 = call(ctx, || BigUint::from_radix_be(&be, r));
                    let g2 = call(ctx, || BigUint::from_radix_le(&le, r));
                    ctx.compared(2);
                    let ok1 = matches!(&g1, Out::Ret(Some(x)) if nat_chk(ctx, "from_radix_be", x) == want);
                    let ok2 = matches!(&g2, Out::Ret(Some(x)) if nat_chk(ctx, "from_radix_le", x) == want);
                    if !ok1 || !ok2 {
                        ctx.viol(format!("from_radix long radix={} len={} pat={}", r, len, pat), "long digit slice not imported exactly", vec![], want.to_hex(), format!("{:?} {:?}", g1, g2));
                    }
                }
            }
            if r % 50 == 0 {
                ctx.sample(|| format!("radix {}: every digit slice of length <= 3 over {:?}, long slices of length 4..={}", r, syms, 3 * pw + 1));
            }
        }
    }
}

fn main() {
    runner::main(SPEC, body)
}
