//! C18 -- random generation stays within the requested bounds and covers them.
use nbmc::*;
use num_bigint::{RandBigInt, RandomBits, UniformBigInt, UniformBigUint};
use rand::distributions::uniform::UniformSampler;
use rand::distributions::Distribution;
use rand::{RngCore, SeedableRng};

const SPEC: Spec = Spec {
    id: "C18",
    engine: "E-hist over RNG streams (depth-first enumeration of every RNG word stream over a 5-letter word alphabet up to a length bound, pruned exactly where the call consumed no further word; the real generators run on an explicit-stream RngCore; result and words consumed compared with the specification model)",
    rule: "states = (API call, arguments, stream prefix) nodes of the decision tree driven by the RNG; for every node the real call runs on the stream prefix followed by zeros, once behind a 32-bit-word RngCore and once behind a 64-bit-native RngCore (whole units per next_u32 / fill request); the result must equal the property's own model (gen_biguint(n) = first ceil(n/32) words as little-endian base-2^32 digits with the top word shifted down; bounded sampling = first candidate below the bound; ranges by translation; gen_bigint = magnitude then one sign word, redraw on zero+true), the number of words consumed must equal the model's, results must be in range and canonical; uniformity by exhaustive preimage counting for widths <= 12 bits; non-trivial = the call consumed >= 2 words or retried",
    assumptions: &[
        "streams: every word sequence over {0,1,2^31,2^32-1,0x5555aaaa} up to the length bound, then zeros (so rejection loops terminate; the horizon is explicit)",
        "the RNG is consumed through RngCore::{next_u32,next_u64,fill_bytes} with little-endian word order, as rand's block RNGs do; tied to a real generator by replaying the ChaCha value-stability vectors of ci/big_rand",
        "uniformity is decided as exact counting (every candidate of the width is presented once per filler pattern), not as a statistical statement",
    ],
    bounds_quick: "stream length <= 8 words (32-bit-word generator) / <= 6 words (64-bit-native generator: whole 64-bit units per request); gen_biguint/gen_bigint/RandomBits for every n in 0..=130; below/range/Uniform over 10 bounds x 3 offsets and 14 signed ranges; uniformity for widths <= 11; panic clauses; ChaCha vectors; L-long bit sizes 1000..100001 x 3 dense streams x 2 generator kinds; H-huge n = 2^32 and 2^32+7 (512 MiB values) on constant streams",
    bounds_thorough: "stream length <= 10 words; n in 0..=260; uniformity for widths <= 13; L-long up to 1000003 bits",
    hang_secs: 120,
    probes: None,
    max_workers: 16,
};

const WORDS: [u32; 5] = [0, 1, 1 << 31, u32::MAX, 0x5555_aaaa];

/// RngCore over an explicit word list followed by zeros; counts the words consumed.
/// RNG kind: false = 32-bit-word generator (fill_bytes and next_u32 draw from one word stream);
/// true = 64-bit-native generator (StepRng / Xoshiro / Pcg64 style): every next_u32, next_u64 and
/// fill_bytes call consumes whole 64-bit units, the unused half of the last unit is discarded.
static UNIT64: std::sync::atomic::AtomicBool = std::sync::atomic::AtomicBool::new(false);
fn unit64() -> bool {
    UNIT64.load(std::sync::atomic::Ordering::Relaxed)
}
fn kind() -> &'static str {
    if unit64() {
        " rng=64bit-native"
    } else {
        ""
    }
}
struct StreamRng<'a> {
    words: &'a [u32],
    pos: usize,
}
impl<'a> StreamRng<'a> {
    fn word(&mut self) -> u32 {
        let w = self.words.get(self.pos).copied().unwrap_or(0);
        self.pos += 1;
        w
    }
}
impl<'a> RngCore for StreamRng<'a> {
    fn next_u32(&mut self) -> u32 {
        let w = self.word();
        if unit64() {
            self.pos += 1;
        }
        w
    }
    fn next_u64(&mut self) -> u64 {
        let lo = self.word() as u64;
        let hi = self.word() as u64;
        lo | (hi << 32)
    }
    fn fill_bytes(&mut self, dest: &mut [u8]) {
        for chunk in dest.chunks_mut(4) {
            let w = self.word().to_le_bytes();
            chunk.copy_from_slice(&w[..chunk.len()]);
        }
        if unit64() && self.pos % 2 == 1 {
            self.pos += 1;
        }
    }
    fn try_fill_bytes(&mut self, dest: &mut [u8]) -> Result<(), rand::Error> {
        self.fill_bytes(dest);
        Ok(())
    }
}

/// the specification model: a word stream reader
struct M<'a> {
    words: &'a [u32],
    pos: usize,
    retries: u64,
}
impl<'a> M<'a> {
    fn word(&mut self) -> u32 {
        let w = self.words.get(self.pos).copied().unwrap_or(0);
        self.pos += 1;
        w
    }
    fn biguint(&mut self, n: u64) -> Nat {
        let len = ((n + 31) / 32) as usize;
        let mut d: Vec<u32> = (0..len).map(|_| self.word()).collect();
        let rem = n % 32;
        if rem > 0 {
            d[len - 1] >>= 32 - rem;
        }
        // one fill request per candidate: a 64-bit-native generator drops the unused half unit
        if unit64() && self.pos % 2 == 1 {
            self.pos += 1;
        }
        Nat::from_u32_digits(&d)
    }
    fn below(&mut self, b: &Nat) -> Nat {
        let bits = b.bits();
        loop {
            let c = self.biguint(bits);
            if c.lt(b) {
                return c;
            }
            self.retries += 1;
        }
    }
    fn bigint(&mut self, n: u64) -> Int {
        loop {
            let m = self.biguint(n);
            let s = (self.word() as i32) < 0; // rand 0.8: bool = sign bit of next_u32
            if unit64() {
                self.pos += 1;
            }
            if m.is_zero() {
                if s {
                    self.retries += 1;
                    continue;
                }
                return Int::zero();
            }
            return Int::new(!s, m);
        }
    }
}

#[derive(Clone, Debug)]
enum Api {
    GenBiguint(u64),
    GenBigint(u64),
    RandomBitsU(u64),
    RandomBitsI(u64),
    Below(Nat),
    RangeU(Nat, Nat),
    RangeI(Int, Int),
    UniformU(Nat, Nat, bool),
    UniformI(Int, Int, bool),
    SingleU(Nat, Nat),
    SingleI(Int, Int),
    /// UniformSampler::sample_single_inclusive (what `rng.gen_range(lo..=hi)` calls)
    SingleInclU(Nat, Nat),
    SingleInclI(Int, Int),
}

/// printable form of a word stream (long streams: head, length and a checksum)
fn ws(words: &[u32]) -> String {
    if words.len() <= 16 {
        format!("{:x?}", words)
    } else {
        let sum = words.iter().fold(0u64, |a, &w| a.wrapping_mul(0x100000001b3).wrapping_add(w as u64));
        format!("{:x?}..(+{} words, checksum {:x})", &words[..8], words.len() - 8, sum)
    }
}
/// runs the real call and the model on `words`; returns words consumed by the real call
fn run_node(ctx: &mut Ctx, api: &Api, words: &[u32]) -> usize {
    ctx.case();
    let mut m = M { words, pos: 0, retries: 0 };
    let want: Int = match api {
        Api::GenBiguint(n) | Api::RandomBitsU(n) => Int::from_nat(m.biguint(*n)),
        Api::GenBigint(n) | Api::RandomBitsI(n) => m.bigint(*n),
        Api::Below(b) => Int::from_nat(m.below(b)),
        Api::RangeU(l, u) | Api::SingleU(l, u) => Int::from_nat(l.add(&m.below(&u.sub(l).unwrap()))),
        Api::UniformU(l, u, incl) => {
            let w = u.sub(l).unwrap();
            let w = if *incl { w.add(&Nat::one()) } else { w };
            Int::from_nat(l.add(&m.below(&w)))
        }
        Api::RangeI(l, u) | Api::SingleI(l, u) => l.add(&Int::from_nat(m.below(&u.sub(l).mag))),
        Api::UniformI(l, u, incl) => {
            let w = u.sub(l).mag;
            let w = if *incl { w.add(&Nat::one()) } else { w };
            l.add(&Int::from_nat(m.below(&w)))
        }
        Api::SingleInclU(l, u) => Int::from_nat(l.add(&m.below(&u.sub(l).unwrap().add(&Nat::one())))),
        Api::SingleInclI(l, u) => l.add(&Int::from_nat(m.below(&u.sub(l).mag.add(&Nat::one())))),
    };
    if m.pos >= 2 || m.retries > 0 {
        ctx.nontrivial(1);
    }
    if m.retries >= 2 {
        ctx.goal("rejection loop retried at least twice");
    }
    if matches!(api, Api::GenBigint(_)) && m.retries > 0 {
        ctx.goal("gen_bigint redraw on zero taken");
    }
    let mut rng = StreamRng { words, pos: 0 };
    let got = call(ctx, || match api {
        Api::GenBiguint(n) => BigInt::from(rng.gen_biguint(*n)),
        Api::GenBigint(n) => rng.gen_bigint(*n),
        Api::RandomBitsU(n) => {
            let v: BigUint = RandomBits::new(*n).sample(&mut rng);
            BigInt::from(v)
        }
        Api::RandomBitsI(n) => RandomBits::new(*n).sample(&mut rng),
        Api::Below(b) => BigInt::from(rng.gen_biguint_below(&bu_nat(b))),
        Api::RangeU(l, u) => BigInt::from(rng.gen_biguint_range(&bu_nat(l), &bu_nat(u))),
        Api::RangeI(l, u) => rng.gen_bigint_range(&bi_int(l), &bi_int(u)),
        Api::UniformU(l, u, incl) => {
            let s = if *incl { UniformBigUint::new_inclusive(bu_nat(l), bu_nat(u)) } else { UniformBigUint::new(bu_nat(l), bu_nat(u)) };
            BigInt::from(s.sample(&mut rng))
        }
        Api::UniformI(l, u, incl) => {
            let s = if *incl { UniformBigInt::new_inclusive(bi_int(l), bi_int(u)) } else { UniformBigInt::new(bi_int(l), bi_int(u)) };
            s.sample(&mut rng)
        }
        Api::SingleU(l, u) => BigInt::from(UniformBigUint::sample_single(bu_nat(l), bu_nat(u), &mut rng)),
        Api::SingleI(l, u) => UniformBigInt::sample_single(bi_int(l), bi_int(u), &mut rng),
        Api::SingleInclU(l, u) => BigInt::from(UniformBigUint::sample_single_inclusive(bu_nat(l), bu_nat(u), &mut rng)),
        Api::SingleInclI(l, u) => UniformBigInt::sample_single_inclusive(bi_int(l), bi_int(u), &mut rng),
    });
    let consumed = rng.pos;
    let args = || vec![format!("{:?}", api), format!("stream={}", ws(words))];
    ctx.compared(2);
    match got {
        Out::Ret(x) => {
            let g = int_chk(ctx, "random result", &x);
            ctx.outcome_digits(g.mag.digits());
            // The property pins the stream function of gen_biguint and of bounded sampling; for
            // gen_bigint it only requires the range, canonical form and agreement with RandomBits,
            // so a different (but deterministic) sign rule is reported, not flagged.
            let pinned = !matches!(api, Api::GenBigint(_) | Api::RandomBitsI(_));
            // "RandomBits matches gen_bigint": on every stream, whatever sign rule gen_bigint follows
            if let Api::GenBigint(n) = api {
                let mut r2 = StreamRng { words, pos: 0 };
                let again: Result<BigInt, String> = guard(|| RandomBits::new(*n).sample(&mut r2));
                ctx.compared(1);
                if again.as_ref().map(int_of) != Ok(g.clone()) {
                    ctx.viol(format!("RandomBits!=gen_bigint {:?} stream={}{}", api, ws(words), kind()), "RandomBits does not match gen_bigint on the same stream", args(), g.to_hex(), format!("{:?}", again.map(|x| int_of(&x).to_hex())));
                }
            }
            if g != want && !pinned {
                ctx.count("gen_bigint_differs_from_reference_sign_rule", 1);
            } else if g != want {
                ctx.viol(format!("{:?} stream={}{}", api, ws(words), kind()), "result is not the specified function of the RNG stream", args(), want.to_hex(), g.to_hex());
            } else if consumed != m.pos && pinned {
                ctx.viol(format!("words-consumed {:?} stream={}{}", api, ws(words), kind()), "number of RNG words consumed differs from the specification", args(), format!("{}", m.pos), format!("{}", consumed));
            }
            // range clause, independent of the model value
            let in_range = match api {
                Api::GenBiguint(n) | Api::RandomBitsU(n) => !g.neg && g.mag.bits() <= *n,
                Api::GenBigint(n) | Api::RandomBitsI(n) => g.mag.bits() <= *n,
                Api::Below(b) => !g.neg && g.mag.lt(b),
                Api::RangeU(l, u) | Api::SingleU(l, u) => !g.neg && l.le(&g.mag) && g.mag.lt(u),
                Api::UniformU(l, u, incl) => !g.neg && l.le(&g.mag) && (g.mag.lt(u) || (*incl && g.mag == *u)),
                Api::RangeI(l, u) | Api::SingleI(l, u) => l.cmp(&g) != std::cmp::Ordering::Greater && g.cmp(u) == std::cmp::Ordering::Less,
                Api::UniformI(l, u, incl) => l.cmp(&g) != std::cmp::Ordering::Greater && (g.cmp(u) == std::cmp::Ordering::Less || (*incl && g == *u)),
                Api::SingleInclU(l, u) => !g.neg && l.le(&g.mag) && g.mag.le(u),
                Api::SingleInclI(l, u) => l.cmp(&g) != std::cmp::Ordering::Greater && g.cmp(u) != std::cmp::Ordering::Greater,
            };
            if !in_range {
                ctx.viol(format!("out-of-range {:?} stream={}{}", api, ws(words), kind()), "result outside the requested bounds", args(), "in range".into(), g.to_hex());
            }
        }
        Out::Panic(p) => ctx.viol(format!("{:?} stream={}{}", api, ws(words), kind()), "generator panicked", args(), want.to_hex(), p),
    }
    consumed.max(m.pos)
}

/// depth-first enumeration of streams; extend a prefix only if the call read beyond it
fn explore(ctx: &mut Ctx, api: &Api, prefix: &mut Vec<u32>, maxlen: usize) {
    let consumed = run_node(ctx, api, prefix);
    if consumed > prefix.len() && prefix.len() < maxlen {
        for &w in &WORDS {
            prefix.push(w);
            explore(ctx, api, prefix, maxlen);
            prefix.pop();
        }
    } else if consumed > prefix.len() {
        ctx.count("streams_cut_at_length_bound", 1);
    }
}

/// records the words a real generator hands out
struct Tap<R: RngCore> {
    inner: R,
    words: Vec<u32>,
}
impl<R: RngCore> RngCore for Tap<R> {
    fn next_u32(&mut self) -> u32 {
        let w = self.inner.next_u32();
        self.words.push(w);
        w
    }
    fn next_u64(&mut self) -> u64 {
        let lo = self.next_u32() as u64;
        let hi = self.next_u32() as u64;
        lo | (hi << 32)
    }
    fn fill_bytes(&mut self, dest: &mut [u8]) {
        for chunk in dest.chunks_mut(4) {
            let w = self.next_u32().to_le_bytes();
            chunk.copy_from_slice(&w[..chunk.len()]);
        }
    }
    fn try_fill_bytes(&mut self, dest: &mut [u8]) -> Result<(), rand::Error> {
        self.fill_bytes(dest);
        Ok(())
    }
}

fn body(ctx: &mut Ctx) {
    let tier = ctx.tier;
    let maxlen = tier.pick(8usize, 10usize);
    let nat = |d: &[u64]| Nat::from_digits(d);
    // ---- A: bit-size APIs
    if ctx.space("A-bits") {
        let sizes: Vec<u64> = match tier {
            Tier::Quick => (0..=130).collect(),
            Tier::Thorough => (0..=260).collect(),
        };
        let mut o = 0u64;
        for &n in &sizes {
            for api in [Api::GenBiguint(n), Api::GenBigint(n), Api::RandomBitsU(n), Api::RandomBitsI(n)] {
                let take = ctx.mine(o);
                o += 1;
                if !take {
                    continue;
                }
                // the RandomBits forms are the same code path: explore them to a smaller depth
                let ml = if matches!(api, Api::RandomBitsU(_) | Api::RandomBitsI(_)) { maxlen.min(4) } else { maxlen };
                explore(ctx, &api, &mut Vec::new(), ml);
                UNIT64.store(true, std::sync::atomic::Ordering::Relaxed);
                explore(ctx, &api, &mut Vec::new(), ml.min(6));
                UNIT64.store(false, std::sync::atomic::Ordering::Relaxed);
                if n == 33 {
                    ctx.sample(|| format!("{:?}: every stream over {:x?} up to {} words (pruned where no further word is read), as a 32-bit-word and (up to 6 words) as a 64-bit-native generator", api, WORDS, ml));
                }
            }
        }
    }
    // ---- B: bounds and ranges
    if ctx.space("B-bounds") {
        let bounds: Vec<Nat> = vec![nat(&[1]), nat(&[2]), nat(&[3]), nat(&[5]), nat(&[1 << 31]), nat(&[0xffff_ffff]), nat(&[1 << 32]), nat(&[(1 << 32) + 1]), nat(&[alpha::M]), nat(&[1, 1])];
        let mut apis: Vec<Api> = Vec::new();
        for b in &bounds {
            apis.push(Api::Below(b.clone()));
            // unsigned ranges [l, l+b)
            for l in [Nat::zero(), nat(&[7]), nat(&[alpha::M])] {
                let u = l.add(b);
                apis.push(Api::RangeU(l.clone(), u.clone()));
                apis.push(Api::UniformU(l.clone(), u.clone(), false));
                apis.push(Api::SingleU(l.clone(), u.clone()));
                apis.push(Api::UniformU(l.clone(), u.sub(&Nat::one()).unwrap(), true));
                apis.push(Api::SingleInclU(l.clone(), u.sub(&Nat::one()).unwrap()));
                apis.push(Api::SingleInclU(l.clone(), l.clone())); // one-point range
            }
        }
        // signed ranges: negative, zero-crossing, lbound = 0, ubound = 0, width 1
        let i = |x: i128| Int::from_i128(x);
        let big = Int::new(true, nat(&[0, 1]));
        let signed: Vec<(Int, Int)> = vec![
            (i(-5), i(-4)),
            (i(-5), i(0)),
            (i(-5), i(5)),
            (i(0), i(5)),
            (i(0), i(1)),
            (i(-1), i(0)),
            (i(-1), i(1)),
            (i(-(1 << 32)), i(1 << 32)),
            (i(-(1 << 32) - 1), i(0)),
            (i(0), i((1 << 32) + 1)),
            (big.clone(), i(0)),
            (big.clone(), i(3)),
            (big.clone(), big.add(&i(1))),
            (i(3), Int::new(false, nat(&[3, 1]))),
        ];
        for (l, u) in &signed {
            apis.push(Api::RangeI(l.clone(), u.clone()));
            apis.push(Api::UniformI(l.clone(), u.clone(), false));
            apis.push(Api::SingleI(l.clone(), u.clone()));
            apis.push(Api::UniformI(l.clone(), u.sub(&i(1)), true));
            apis.push(Api::SingleInclI(l.clone(), u.sub(&i(1))));
            apis.push(Api::SingleInclI(l.clone(), l.clone())); // one-point range
            apis.push(Api::UniformI(u.clone(), u.clone(), true));
        }
        for (k, api) in apis.iter().enumerate() {
            if !ctx.mine(k as u64) {
                continue;
            }
            explore(ctx, api, &mut Vec::new(), maxlen);
            UNIT64.store(true, std::sync::atomic::Ordering::Relaxed);
            explore(ctx, api, &mut Vec::new(), maxlen.min(6));
            UNIT64.store(false, std::sync::atomic::Ordering::Relaxed);
            ctx.sample(|| format!("{:?}: every stream up to {} words (32-bit-word generator) and up to 6 words (64-bit-native generator)", api, maxlen));
        }
    }
    // ---- U: uniformity by exhaustive preimage counting
    if ctx.space("U-uniform") {
        let wmax = tier.pick(11u64, 13u64);
        for bits in 1..=wmax {
            let lo = 1u64 << (bits - 1);
            let hi = (1u64 << bits) - 1;
            for b in lo..=hi {
                if !ctx.mine(b) {
                    continue;
                }
                let bound = Nat::from_u64(b);
                let bb = bu_nat(&bound);
                let mut hits = vec![0u32; b as usize];
                for c in 0..(1u64 << bits) {
                    for filler in [0u32, (1u32 << (32 - bits)) - 1] {
                        ctx.case();
                        let w = ((c as u32) << (32 - bits)) | filler;
                        let words = [w];
                        let mut rng = StreamRng { words: &words, pos: 0 };
                        let r = call(ctx, || rng.gen_biguint_below(&bb));
                        ctx.compared(1);
                        match r {
                            Out::Ret(x) => {
                                let g = nat_of(&x).to_u64().unwrap_or(u64::MAX);
                                let want = if c < b { c } else { 0 };
                                if g != want {
                                    ctx.viol(format!("uniform bits={} bound={} candidate={} filler={:x}", bits, b, c, filler), "bounded sampling is not 'first candidate below the bound' (depends on more than the top bits)", vec![], format!("{}", want), format!("{}", g));
                                }
                                if c < b && filler == 0 {
                                    hits[g.min(b - 1) as usize] += 1;
                                }
                            }
                            Out::Panic(m) => ctx.viol(format!("uniform bits={} bound={} candidate={}", bits, b, c), "panic", vec![], "value".into(), m),
                        }
                    }
                }
                ctx.nontrivial(1);
                ctx.compared(1);
                if hits.iter().any(|&h| h != 1) {
                    ctx.viol(format!("preimages bits={} bound={}", bits, b), "values of the range do not have equally many candidate preimages", vec![], "1 each".into(), format!("{:?}", &hits[..hits.len().min(16)]));
                }
            }
            if ctx.worker == 0 {
                ctx.sample(|| format!("width {} bits: every bound of that width x all 2^{} candidates x 2 filler patterns", bits, bits));
            }
        }
    }
    // ---- P: panic clauses
    if ctx.space("P-panics") && ctx.mine(0) {
        let words = [5u32, 6, 7, 8];
        macro_rules! p {
            ($name:expr, $e:expr) => {{
                ctx.case();
                ctx.nontrivial(1);
                let mut rng = StreamRng { words: &words, pos: 0 };
                let _ = &mut rng;
                let r = call(ctx, || $e(&mut rng));
                expect_panic(ctx, $name, &|| vec![], r);
            }};
        }
        let five = bu(&[5]);
        let big = bu(&[1, 1]);
        p!("gen_biguint_below(0)", |r: &mut StreamRng| r.gen_biguint_below(&BigUint::ZERO));
        p!("gen_biguint_range(5,5)", |r: &mut StreamRng| r.gen_biguint_range(&five, &five));
        p!("gen_biguint_range(big,5)", |r: &mut StreamRng| r.gen_biguint_range(&big, &five));
        p!("gen_biguint_range(0,0)", |r: &mut StreamRng| r.gen_biguint_range(&BigUint::ZERO, &BigUint::ZERO));
        let (ifive, ineg, ibig) = (BigInt::from(5), BigInt::from(-5), -BigInt::from(big.clone()));
        p!("gen_bigint_range(5,5)", |r: &mut StreamRng| r.gen_bigint_range(&ifive, &ifive));
        p!("gen_bigint_range(5,-5)", |r: &mut StreamRng| r.gen_bigint_range(&ifive, &ineg));
        p!("gen_bigint_range(0,0)", |r: &mut StreamRng| r.gen_bigint_range(&BigInt::ZERO, &BigInt::ZERO));
        p!("gen_bigint_range(-5,-big)", |r: &mut StreamRng| r.gen_bigint_range(&ineg, &ibig));
        p!("UniformBigUint::new(5,5)", |_r: &mut StreamRng| UniformBigUint::new(five.clone(), five.clone()));
        p!("UniformBigUint::new(big,5)", |_r: &mut StreamRng| UniformBigUint::new(big.clone(), five.clone()));
        p!("UniformBigUint::new_inclusive(big,5)", |_r: &mut StreamRng| UniformBigUint::new_inclusive(big.clone(), five.clone()));
        p!("UniformBigInt::new(5,5)", |_r: &mut StreamRng| UniformBigInt::new(ifive.clone(), ifive.clone()));
        p!("UniformBigInt::new(5,-5)", |_r: &mut StreamRng| UniformBigInt::new(ifive.clone(), ineg.clone()));
        p!("UniformBigInt::new_inclusive(5,-5)", |_r: &mut StreamRng| UniformBigInt::new_inclusive(ifive.clone(), ineg.clone()));
        p!("UniformBigUint::sample_single(5,5)", |r: &mut StreamRng| UniformBigUint::sample_single(five.clone(), five.clone(), r));
        p!("UniformBigInt::sample_single(5,-5)", |r: &mut StreamRng| UniformBigInt::sample_single(ifive.clone(), ineg.clone(), r));
        p!("UniformBigUint::sample_single_inclusive(big,5)", |r: &mut StreamRng| UniformBigUint::sample_single_inclusive(big.clone(), five.clone(), r));
        p!("UniformBigInt::sample_single_inclusive(5,-5)", |r: &mut StreamRng| UniformBigInt::sample_single_inclusive(ifive.clone(), ineg.clone(), r));
        p!("UniformBigInt::sample_single(-5,-5)", |r: &mut StreamRng| UniformBigInt::sample_single(ineg.clone(), ineg.clone(), r));
        // new_inclusive(low == high) is a valid one-point range
        ctx.case();
        let mut rng = StreamRng { words: &words, pos: 0 };
        let r = call(ctx, || UniformBigInt::new_inclusive(ineg.clone(), ineg.clone()).sample(&mut rng));
        expect_int(ctx, "UniformBigInt::new_inclusive(-5,-5).sample", &|| vec![], r, &Int::from_i64(-5));
        ctx.sample(|| "zero bound, empty and inverted ranges must panic for every entry point".to_string());
    }
    // ---- L: long bit sizes and long bounds on fixed dense word streams (both generator kinds)
    if ctx.space("L-long") {
        let sizes: Vec<u64> = tier.pick(vec![1000, 1024, 4095, 4096, 4097, 65536 + 33, 100_001], vec![1000, 1024, 2047, 2048, 4095, 4096, 4097, 8191, 65535, 65536 + 33, 100_001, 1_000_003]);
        for (o, &n) in sizes.iter().enumerate() {
            if !ctx.mine(o as u64) {
                continue;
            }
            let len = (n as usize + 31) / 32 * 3 + 8;
            for salt in 0..3u64 {
                let mut st = 0xabcd_ef01_2345_6789u64 ^ n ^ (salt << 56);
                let mut words: Vec<u32> = (0..len).map(|_| (alpha::lcg(&mut st) >> 32) as u32).collect();
                if salt == 1 {
                    // top word of the first candidate all ones: bounded sampling must reject and redraw
                    let k = (n as usize + 31) / 32;
                    words[k - 1] = u32::MAX;
                }
                if salt == 2 {
                    for w in words.iter_mut().take((n as usize + 31) / 32) {
                        *w = 0; // zero magnitude first: gen_bigint's redraw rule
                    }
                }
                for unit in [false, true] {
                    UNIT64.store(unit, std::sync::atomic::Ordering::Relaxed);
                    run_node(ctx, &Api::GenBiguint(n), &words);
                    run_node(ctx, &Api::GenBigint(n), &words);
                    run_node(ctx, &Api::RandomBitsU(n), &words);
                    // a bound of exactly n bits: 2^(n-1) + 2^(n/2) + 1, and ranges around it
                    let b = Nat::one().shl(n - 1).add(&Nat::one().shl(n / 2)).add(&Nat::one());
                    run_node(ctx, &Api::Below(b.clone()), &words);
                    run_node(ctx, &Api::RangeU(Nat::from_u64(7), b.add(&Nat::from_u64(7))), &words);
                    run_node(ctx, &Api::UniformI(Int::new(true, b.clone()), Int::from_nat(b.clone()), true), &words);
                    UNIT64.store(false, std::sync::atomic::Ordering::Relaxed);
                }
            }
            ctx.sample(|| format!("bit size {}: 3 dense word streams x 2 generator kinds through gen_biguint / gen_bigint / RandomBits and an {}-bit bound through below / range / Uniform", n, n));
        }
    }
    // ---- H: bit sizes beyond 2^32 (a 512 MiB value): RandomBits must still match gen_biguint / gen_bigint
    if ctx.space("H-huge") && ctx.mine(0) {
        struct ConstRng(u8);
        impl RngCore for ConstRng {
            fn next_u32(&mut self) -> u32 {
                u32::from_le_bytes([self.0; 4])
            }
            fn next_u64(&mut self) -> u64 {
                u64::from_le_bytes([self.0; 8])
            }
            fn fill_bytes(&mut self, dest: &mut [u8]) {
                for b in dest.iter_mut() {
                    *b = self.0;
                }
            }
            fn try_fill_bytes(&mut self, dest: &mut [u8]) -> Result<(), rand::Error> {
                self.fill_bytes(dest);
                Ok(())
            }
        }
        for n in [1u64 << 32, (1u64 << 32) + 7] {
            ctx.case();
            ctx.nontrivial(1);
            let r = call(ctx, || {
                let a = ConstRng(0xff).gen_biguint(n);
                let abits = a.bits();
                let b: BigUint = RandomBits::new(n).sample(&mut ConstRng(0xff));
                let same_u = a == b;
                drop(b);
                drop(a);
                // 0x7f bytes: sign word 0x7f7f7f7f (sign bit clear)
                let c = ConstRng(0x7f).gen_bigint(n);
                let cbits = c.bits();
                let d: BigInt = RandomBits::new(n).sample(&mut ConstRng(0x7f));
                (abits, same_u, cbits, c == d)
            });
            ctx.compared(4);
            // all-ones stream: every requested bit is set; 0x7f bytes: the top word 0x7f7f7f7f, shifted down to the
            // requested width, always has its highest requested bit clear and the next one set
            let want_c = n - 1;
            if r != Out::Ret((n, true, want_c, true)) {
                ctx.viol(format!("huge bit size n={}", n), "RandomBits does not match gen_biguint / gen_bigint (or the value does not have the requested width) for a bit size beyond 2^32", vec![format!("n={}", n)], format!("{:?}", (n, true, want_c, true)), format!("{:?}", r));
            }
        }
        ctx.sample(|| "n = 2^32 and 2^32+7 on constant byte streams: gen_biguint width, RandomBits<BigUint> == gen_biguint, RandomBits<BigInt> == gen_bigint".to_string());
    }
    // ---- V: value stability with a real generator (ChaCha vectors of ci/big_rand)
    if ctx.space("V-chacha") && ctx.mine(0) {
        const EXP_U: [&str; 10] = [
            "0",
            "0",
            "52",
            "84",
            "23780",
            "86502865016",
            "187057847319509867386",
            "34045731223080904464438757488196244981910",
            "23813754422987836414755953516143692594193066497413249270287126597896871975915808",
            "5740163690314694541165254909881844691181435252944935639369098410538348270307435567088360974672291353736011718191813678720755501317478656550386324355699624671",
        ];
        const EXP_I: [&str; 10] = [
            "0",
            "-6",
            "-1",
            "1321",
            "-147247",
            "8486373526",
            "-272736656290199720696",
            "2731152629387534140535423510744221288522",
            "-28820024790651190394679732038637785320661450462089347915910979466834461433196572",
            "5014545705541704847997236039814392882099303933344720853179776146907738216808848448530978478667288338327570972869032358120588620346111979053742269317702532328",
        ];
        let mut seed = <rand_chacha::ChaChaRng as SeedableRng>::Seed::default();
        for (i, x) in seed.as_mut().iter_mut().enumerate() {
            *x = (i as u8).wrapping_mul(191);
        }
        for signed in [false, true] {
            let mut rng = Tap { inner: rand_chacha::ChaChaRng::from_seed(seed), words: Vec::new() };
            for i in 0..10usize {
                ctx.case();
                ctx.nontrivial(1);
                let n = (1u64 << i) + i as u64;
                let start = rng.words.len();
                let got = call(ctx, || if signed { rng.gen_bigint(n) } else { BigInt::from(rng.gen_biguint(n)) });
                let words: Vec<u32> = rng.words[start..].to_vec();
                let mut m = M { words: &words, pos: 0, retries: 0 };
                let model = if signed { m.bigint(n) } else { Int::from_nat(m.biguint(n)) };
                let exp = if signed { EXP_I[i] } else { EXP_U[i] };
                ctx.compared(2);
                match got {
                    Out::Ret(x) => {
                        let g = int_of(&x);
                        if signed && (x.to_string() != exp || g != model) {
                            // value stability of gen_bigint is the repository's CI convention, not part of the property
                            ctx.count("chacha_gen_bigint_vector_differs", 1);
                        } else if x.to_string() != exp || g != model || m.pos != words.len() {
                            ctx.viol(format!("chacha {} bits={}", if signed { "gen_bigint" } else { "gen_biguint" }, n), "ChaCha value-stability vector / model / real generator disagree", vec![], format!("{} (model {})", exp, model.to_hex()), format!("{}", x));
                        }
                    }
                    Out::Panic(p) => ctx.viol(format!("chacha bits={}", n), "panic", vec![], exp.to_string(), p),
                }
            }
        }
        ctx.sample(|| "ChaCha20 (seed i*191) value-stability vectors of ci/big_rand: real generator, recorded words fed to the model, expected constants".to_string());
    }
}

fn main() {
    runner::main(SPEC, body)
}
