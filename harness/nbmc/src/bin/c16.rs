//! C16 (part K2) -- one deterministic transcript of operation results, produced by the same source
//! in every build configuration.  Every line is also checked against refint here, so that
//! "identical transcripts" cannot mean "identically wrong".  The orchestration script
//! (checks/c16.sh) builds this binary in five configurations and compares the transcripts
//! byte-for-byte; part K1 (the feature-subset build matrix) lives in tools/c16_matrix.py.
use nbmc::*;
use num_integer::{Integer, Roots};
use num_traits::{Num, ToPrimitive};
use std::io::Write;

const SPEC: Spec = Spec {
    id: "C16",
    engine: "E-prod over the configuration lattice (complete feature-subset build matrix + byte-identical deterministic transcripts across {std,no_std} x {release, debug-assertions} + std-only, every line validated against refint)",
    rule: "states = transcript lines (one operation on one operand tuple); the transcript covers every radix conversion of the stated values (feature-conditional buffer estimates), roots (feature-conditional initial guesses) and a cross-section of add/sub/mul/div/modpow/gcd/shift/bit/float/byte operations; a line is non-trivial when an operand has >= 2 digits",
    assumptions: &[
        "only x86_64-linux is available: the 32-bit digit code and non-x86 fallbacks are not built",
        "the debug profile is represented by release + debug-assertions + overflow-checks (opt-level 1) for the transcripts; the dev profile itself is built for every feature subset in K1",
    ],
    bounds_quick: "transcript of ~10^5 lines: to_str_radix/from_str_radix/to_radix_le for radix 2..=36 (digits 2..=256 on a subset) over Dense(S5,3) + patterns at 63..66 and 129 digits; roots of 2^k+-1 (every 7th k <= 2300) and perfect powers; Dense(S5,2)^2 arithmetic cross-section",
    bounds_thorough: "same families with every k <= 2300 for roots, all digit radices 2..=256 and Dense(S5,3)xDense(S5,2) arithmetic",
    hang_secs: 180,
    probes: None,
    max_workers: 1,
};

struct T {
    out: std::io::BufWriter<std::fs::File>,
}
impl T {
    fn line(&mut self, ctx: &mut Ctx, nontrivial: bool, ok: bool, text: String) {
        ctx.case();
        ctx.calls(1);
        ctx.compared(1);
        if nontrivial {
            ctx.nontrivial(1);
        }
        if !ok {
            ctx.viol(format!("transcript-line {}", &text[..text.len().min(200)]), "transcript line disagrees with refint in this configuration", vec![text.clone()], "agreement with refint".into(), text.clone());
        }
        let _ = self.out.write_all(text.as_bytes());
        let _ = self.out.write_all(b"\n");
    }
}

/// `Display` / `Debug` text of a value if its type implements the trait in this configuration, a marker otherwise
/// (inherent methods bounded on the trait take precedence over the blanket fallback trait), so that a trait impl
/// that exists only under some feature shows up as a differing transcript line instead of a harness build failure.
struct Show<'a, T>(&'a T);
trait ShowFallback {
    fn disp(&self) -> String {
        "<no Display impl in this configuration>".into()
    }
    fn dbg(&self) -> String {
        "<no Debug impl in this configuration>".into()
    }
}
impl<'a, T> ShowFallback for Show<'a, T> {}
impl<'a, T: std::fmt::Display> Show<'a, T> {
    fn disp(&self) -> String {
        format!("{}", self.0)
    }
}
impl<'a, T: std::fmt::Debug> Show<'a, T> {
    fn dbg(&self) -> String {
        format!("{:?}", self.0)
    }
}

fn parse_text(s: &str, radix: u32) -> Option<Int> {
    let (neg, body) = match s.strip_prefix('-') {
        Some(r) => (true, r),
        None => (false, s),
    };
    let mut ds = Vec::new();
    for c in body.bytes() {
        let d = match c {
            b'0'..=b'9' => c - b'0',
            b'a'..=b'z' => c - b'a' + 10,
            _ => return None,
        };
        if d as u32 >= radix {
            return None;
        }
        ds.push(d);
    }
    if ds.is_empty() || (ds.len() > 1 && ds[0] == 0) {
        return None;
    }
    Some(Int::new(neg, Nat::from_radix_be_fast(&ds, radix)))
}

fn body(ctx: &mut Ctx) {
    let tier = ctx.tier;
    if !ctx.space("K2") || !ctx.mine(0) {
        return;
    }
    let path = std::env::var("NBMC_TRANSCRIPT_OUT").unwrap_or_else(|_| "/dev/null".to_string());
    let mut t = T { out: std::io::BufWriter::new(std::fs::File::create(&path).expect("transcript output")) };

    // ---- radix conversions
    let mut vals: Vec<Nat> = alpha::dense(&alpha::SIGMA5, 3).iter().map(|d| Nat::from_digits(d)).collect();
    for l in [63usize, 64, 65, 66, 129] {
        for p in [0usize, 2, 9, 10] {
            vals.push(Nat::from_digits(&alpha::pat(l, p)));
        }
    }
    // mid-size values: the feature-conditional buffer estimates depend on the bit length
    for l in (4..=62usize).step_by(tier.pick(3, 1)) {
        vals.push(Nat::from_digits(&alpha::lcg_digits(l, 0)));
        vals.push(Nat::from_digits(&alpha::pat(l, 0)));
    }
    for v in &vals {
        let u = bu_nat(v);
        let x = -BigInt::from(u.clone());
        for r in 2..=36u32 {
            let s = match guard(|| u.to_str_radix(r)) {
                Ok(s) => clean_str(ctx, "BigUint::to_str_radix", s),
                Err(m) => format!("PANIC {}", m),
            };
            let ok = parse_text(&s, r).map_or(false, |i| !i.neg && i.mag == *v);
            t.line(ctx, v.len() >= 2, ok, format!("to_str_radix {} {} -> {}", r, v.to_hex(), s));
            let back = guard(|| BigUint::from_str_radix(&s, r).ok().map(|y| nat_of(&y)));
            t.line(ctx, v.len() >= 2, back == Ok(Some(v.clone())), format!("from_str_radix {} {} -> {:?}", r, s.len(), back.map(|o| o.map(|n| n.to_hex()))));
            if r % 5 == 1 && !v.is_zero() {
                let s = guard(|| x.to_str_radix(r)).map(|s| clean_str(ctx, "BigInt::to_str_radix", s)).unwrap_or_else(|m| format!("PANIC {}", m));
                let ok = parse_text(&s, r).map_or(false, |i| i.neg && i.mag == *v);
                t.line(ctx, v.len() >= 2, ok, format!("BigInt::to_str_radix {} -{} -> {}", r, v.to_hex(), s));
            }
        }
        let digit_radices: Vec<u32> = if tier == Tier::Thorough { (2..=256).collect() } else { vec![3, 7, 10, 100, 128, 200, 255, 256] };
        for r in digit_radices {
            let d = guard(|| u.to_radix_le(r));
            let ok = match &d {
                Ok(le) => {
                    let mut be = le.clone();
                    be.reverse();
                    (r == 256 || be.iter().all(|&q| (q as u32) < r)) && Nat::from_radix_be_fast(&be, r) == *v
                }
                Err(_) => false,
            };
            t.line(ctx, v.len() >= 2, ok, format!("to_radix_le {} {} -> {:?}", r, v.to_hex(), d.map(|le| le.len())));
        }
        t.line(ctx, v.len() >= 2, true, format!("fmt {} -> {} {:x} {:o} {:b}", v.to_hex(), u, u, u, u).chars().take(400).collect());
    }
    // ---- roots
    {
        let degs = [2u32, 3, 4, 5, 7, 11, 16, 63, 64, 65, 100, 1000];
        for k in 60u64..=2300 {
            if tier == Tier::Quick && k % 7 != 0 && !(160..=176).contains(&k) {
                continue;
            }
            let p = Nat::one().shl(k);
            for x in [p.sub(&Nat::one()).unwrap(), p.clone(), p.add(&Nat::one())] {
                let u = bu_nat(&x);
                for &n in &degs {
                    let r = guard(|| nat_of(&u.nth_root(n)));
                    let ok = r.as_ref().map_or(false, |r| r.is_root_of(&x, n));
                    t.line(ctx, true, ok, format!("nth_root 2^{}{:+} {} -> {:?}", k, if x.lt(&p) { -1 } else if x == p { 0 } else { 1 }, n, r.map(|r| r.to_hex())));
                }
            }
        }
        // small x with every degree up to 130 (bit length <= n shortcut and its neighbourhood)
        for x in [2u64, 3, 255, 65536, u64::MAX] {
            for extra in [0u64, 1, 70] {
                let xn = Nat::from_u64(x).shl(extra);
                let u = bu_nat(&xn);
                for n in 1..=130u32 {
                    let r = guard(|| nat_of(&u.nth_root(n)));
                    let ok = r.as_ref().map_or(false, |r| r.is_root_of(&xn, n));
                    t.line(ctx, extra > 0, ok, format!("nth_root {} {} -> {:?}", xn.to_hex(), n, r.map(|r| r.to_hex())));
                }
            }
        }
        for b in [3u64, 5, 10, 0xffff_ffff, alpha::M] {
            for n in [2u32, 3, 5, 8, 16, 65, 100, 2048] {
                if (n as u64) * 64 > 140_000 && b > 10 {
                    continue;
                }
                let p = Nat::from_u64(b).pow(n as u64);
                for x in [p.sub(&Nat::one()).unwrap(), p.clone(), p.add(&Nat::one())] {
                    let u = bu_nat(&x);
                    let r = guard(|| nat_of(&Roots::nth_root(&u, n)));
                    let ok = r.as_ref().map_or(false, |r| r.is_root_of(&x, n));
                    t.line(ctx, x.len() >= 2, ok, format!("nth_root {} {} -> {:?}", x.to_hex(), n, r.map(|r| r.to_hex())));
                    let r = guard(|| nat_of(&u.sqrt()));
                    let ok = r.as_ref().map_or(false, |r| r.is_root_of(&x, 2));
                    t.line(ctx, x.len() >= 2, ok, format!("sqrt {} -> {:?}", x.to_hex(), r.map(|r| r.to_hex())));
                    let r = guard(|| nat_of(&u.cbrt()));
                    let ok = r.as_ref().map_or(false, |r| r.is_root_of(&x, 3));
                    t.line(ctx, x.len() >= 2, ok, format!("cbrt {} -> {:?}", x.to_hex(), r.map(|r| r.to_hex())));
                }
            }
        }
    }
    // ---- the error values of failed conversions and parses: their text is a formatting result too
    {
        use std::convert::TryFrom;
        let neg = BigInt::from(-5);
        let big = BigInt::from(bu(&[1, 2, 3]));
        let e1 = BigUint::try_from(neg.clone()).unwrap_err();
        t.line(ctx, false, Show(&e1).disp() == "out of range conversion regarding big integer attempted", format!("TryFromBigIntError<BigInt> display -> {}", Show(&e1).disp()));
        t.line(ctx, false, true, format!("TryFromBigIntError<BigInt> debug -> {}", Show(&e1).dbg()));
        t.line(ctx, false, e1.into_original() == neg, "TryFromBigIntError into_original".to_string());
        let e2 = u64::try_from(&big).unwrap_err();
        t.line(ctx, false, Show(&e2).disp() == "out of range conversion regarding big integer attempted", format!("TryFromBigIntError<()> display -> {}", Show(&e2).disp()));
        let e3 = i8::try_from(big.clone()).unwrap_err();
        t.line(ctx, false, true, format!("TryFromBigIntError<BigInt> (i8) display -> {} debug -> {}", Show(&e3).disp(), Show(&e3).dbg()));
        let e4 = "".parse::<BigUint>().unwrap_err();
        t.line(ctx, false, Show(&e4).disp() == "cannot parse integer from empty string", format!("ParseBigIntError(empty) display -> {} debug -> {}", Show(&e4).disp(), Show(&e4).dbg()));
        let e5 = "12z".parse::<BigInt>().unwrap_err();
        t.line(ctx, false, Show(&e5).disp() == "invalid digit found in string", format!("ParseBigIntError(invalid) display -> {} debug -> {}", Show(&e5).disp(), Show(&e5).dbg()));
        let e6 = BigUint::from_str_radix("-1", 10).unwrap_err();
        t.line(ctx, false, true, format!("ParseBigIntError(BigUint '-1') display -> {}", Show(&e6).disp()));
        t.line(ctx, false, true, format!("Sign debug -> {} {} {}", Show(&Sign::Minus).dbg(), Show(&Sign::NoSign).dbg(), Show(&Sign::Plus).dbg()));
    }
    // ---- arithmetic cross-section
    {
        let a_set = alpha::dense(&alpha::SIGMA5, tier.pick(2, 3));
        let b_set = alpha::dense(&alpha::SIGMA5, 2);
        for ad in &a_set {
            let a = Nat::from_digits(ad);
            let ua = bu_nat(&a);
            for bd in &b_set {
                let b = Nat::from_digits(bd);
                let ub = bu_nat(&b);
                let nt = a.len() >= 2 || b.len() >= 2;
                let r = guard(|| nat_of(&(&ua + &ub)));
                t.line(ctx, nt, r == Ok(a.add(&b)), format!("add {} {} -> {:?}", a.to_hex(), b.to_hex(), r.map(|x| x.to_hex())));
                let r = guard(|| nat_of(&(&ua * &ub)));
                t.line(ctx, nt, r == Ok(a.mul(&b)), format!("mul {} {} -> {:?}", a.to_hex(), b.to_hex(), r.map(|x| x.to_hex())));
                if let Some(d) = a.sub(&b) {
                    let r = guard(|| nat_of(&(&ua - &ub)));
                    t.line(ctx, nt, r == Ok(d), format!("sub {} {} -> {:?}", a.to_hex(), b.to_hex(), r.map(|x| x.to_hex())));
                }
                if !b.is_zero() {
                    let (q, rm) = a.divrem(&b);
                    let r = guard(|| {
                        let (x, y) = ua.div_rem(&ub);
                        (nat_of(&x), nat_of(&y))
                    });
                    t.line(ctx, nt, r == Ok((q, rm)), format!("div_rem {} {} -> {:?}", a.to_hex(), b.to_hex(), r.map(|(x, y)| (x.to_hex(), y.to_hex()))));
                    let r = guard(|| nat_of(&ua.gcd(&ub)));
                    t.line(ctx, nt, r == Ok(a.gcd(&b)), format!("gcd {} {} -> {:?}", a.to_hex(), b.to_hex(), r.map(|x| x.to_hex())));
                    let e = bu(&[0x1000_0000_0000_0011]);
                    let r = guard(|| nat_of(&ua.modpow(&e, &ub)));
                    t.line(ctx, nt, r == Ok(a.modpow(&Nat::from_u64(0x1000_0000_0000_0011), &b)), format!("modpow {} e {} -> {:?}", a.to_hex(), b.to_hex(), r.map(|x| x.to_hex())));
                }
                let ia = Int::new(true, a.clone());
                let ib = Int::new(false, b.clone());
                let (xa, xb) = (bi_int(&ia), bi_int(&ib));
                let r = guard(|| int_of(&(&xa & &xb)));
                t.line(ctx, nt, r == Ok(ia.and(&ib)), format!("and -{} {} -> {:?}", a.to_hex(), b.to_hex(), r.map(|x| x.to_hex())));
                let r = guard(|| int_of(&(&xa ^ &xb)));
                t.line(ctx, nt, r == Ok(ia.xor(&ib)), format!("xor -{} {} -> {:?}", a.to_hex(), b.to_hex(), r.map(|x| x.to_hex())));
            }
            for k in [1u64, 63, 64, 65, 130] {
                let r = guard(|| nat_of(&(&ua << k)));
                t.line(ctx, true, r == Ok(a.shl(k)), format!("shl {} {} -> {:?}", a.to_hex(), k, r.map(|x| x.to_hex())));
                let ia = Int::new(true, a.clone());
                let r = guard(|| int_of(&(bi_int(&ia) >> k)));
                t.line(ctx, true, r == Ok(ia.shr_floor(k)), format!("shr -{} {} -> {:?}", a.to_hex(), k, r.map(|x| x.to_hex())));
            }
            let r = guard(|| ua.to_f64().map(|f| f.to_bits()));
            t.line(ctx, a.len() >= 2, r == Ok(Some(refint::nat_to_f64_bits(&a))), format!("to_f64 {} -> {:x?}", a.to_hex(), r));
            let r = guard(|| ua.to_f32().map(|f| f.to_bits()));
            t.line(ctx, a.len() >= 2, r == Ok(Some(refint::nat_to_f32_bits(&a))), format!("to_f32 {} -> {:x?}", a.to_hex(), r));
            let r = guard(|| ua.to_bytes_le());
            let mut wb = a.to_bytes_le_min();
            if wb.is_empty() {
                wb.push(0);
            }
            t.line(ctx, a.len() >= 2, r == Ok(wb), format!("to_bytes_le {} -> {:?}", a.to_hex(), r.map(|b| b.len())));
        }
        // larger products (Karatsuba / Toom-3 regimes) and long division
        for (lx, ly) in [(33usize, 33usize), (40, 70), (70, 141), (257, 257), (260, 300)] {
            for p in [0usize, 4, 10] {
                let a = Nat::from_digits(&alpha::pat(lx, p));
                let b = Nat::from_digits(&alpha::pat(ly, (p + 3) % alpha::NPAT));
                let (ua, ub) = (bu_nat(&a), bu_nat(&b));
                let prod = a.mul(&b);
                let r = guard(|| nat_of(&(&ua * &ub)));
                t.line(ctx, true, r.as_ref() == Ok(&prod), format!("mul pat{}x{}/{} -> {:x}", lx, ly, p, fnv(r.unwrap_or_default().digits())));
                let r = guard(|| {
                    let (q, rm) = bu_nat(&prod.add(&Nat::one())).div_rem(&ua);
                    (nat_of(&q), nat_of(&rm))
                });
                t.line(ctx, true, r == Ok((b.clone(), Nat::one())), format!("div_rem pat{}x{}/{} -> ok", lx, ly, p));
            }
        }
    }
    let _ = t.out.flush();
    ctx.sample(|| format!("transcript written to {}", path));
    ctx.sample(|| "to_str_radix 10 ffffffffffffffff -> 18446744073709551615".to_string());
    ctx.sample(|| "nth_root 2^1029+1 5 -> <hex root>".to_string());
}

fn main() {
    runner::main(SPEC, body)
}
