//! Guard-page global allocator (C15): every heap block is its own mmap region with a PROT_NONE
//! page directly after it (mode "end", default) or directly before it (mode "start").  Any access
//! beyond the block on the guarded side faults immediately and deterministically.  Freed blocks
//! are unmapped, so use-after-free faults too.
use std::alloc::{GlobalAlloc, Layout};
use std::sync::atomic::{AtomicU64, AtomicU8, Ordering};

pub struct GuardAlloc;

const PAGE: usize = 4096;
static MODE: AtomicU8 = AtomicU8::new(0); // 0 unknown, 1 end, 2 start
pub static ALLOCS: AtomicU64 = AtomicU64::new(0);
pub static LIVE: AtomicU64 = AtomicU64::new(0);

fn mode() -> u8 {
    let m = MODE.load(Ordering::Relaxed);
    if m != 0 {
        return m;
    }
    // getenv without allocating
    let v = unsafe { libc::getenv(b"NBMC_GUARD\0".as_ptr() as *const libc::c_char) };
    let m = if !v.is_null() && unsafe { *v } == b's' as libc::c_char { 2 } else { 1 };
    MODE.store(m, Ordering::Relaxed);
    m
}

pub fn mode_name() -> &'static str {
    if mode() == 2 {
        "start"
    } else {
        "end"
    }
}

unsafe impl GlobalAlloc for GuardAlloc {
    unsafe fn alloc(&self, layout: Layout) -> *mut u8 {
        let size = layout.size().max(1);
        let align = layout.align();
        if align > PAGE {
            return std::ptr::null_mut();
        }
        let data_pages = (size + PAGE - 1) / PAGE;
        let total = (data_pages + 1) * PAGE;
        let base = libc::mmap(std::ptr::null_mut(), total, libc::PROT_READ | libc::PROT_WRITE, libc::MAP_PRIVATE | libc::MAP_ANONYMOUS, -1, 0);
        if base == libc::MAP_FAILED {
            return std::ptr::null_mut();
        }
        let base = base as usize;
        ALLOCS.fetch_add(1, Ordering::Relaxed);
        LIVE.fetch_add(1, Ordering::Relaxed);
        if mode() == 2 {
            // guard page first, block starts right after it
            libc::mprotect(base as *mut libc::c_void, PAGE, libc::PROT_NONE);
            (base + PAGE) as *mut u8
        } else {
            // guard page last, block ends right before it (up to alignment)
            libc::mprotect((base + data_pages * PAGE) as *mut libc::c_void, PAGE, libc::PROT_NONE);
            let start = (base + data_pages * PAGE - size) & !(align - 1);
            start as *mut u8
        }
    }
    unsafe fn dealloc(&self, ptr: *mut u8, layout: Layout) {
        let size = layout.size().max(1);
        let data_pages = (size + PAGE - 1) / PAGE;
        let total = (data_pages + 1) * PAGE;
        let base = if mode() == 2 { ptr as usize - PAGE } else { (ptr as usize) & !(PAGE - 1) };
        LIVE.fetch_sub(1, Ordering::Relaxed);
        libc::munmap(base as *mut libc::c_void, total);
    }
}
