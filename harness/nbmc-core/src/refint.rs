//! `refint` -- the boring reference model of arbitrary-precision integers.
//!
//! Deliberately naive: little-endian `Vec<u64>` magnitudes without trailing zeros, one loop per
//! operation, no size-dependent algorithm switch, no `unsafe`, no assembly.  Division is binary
//! shift-and-subtract (it shares no idea with Knuth D).  The model is cross-checked against
//! Python's `int` by `pyref/crosscheck.py` (see DESIGN.md 2.2).

use std::cmp::Ordering;

#[derive(Clone, PartialEq, Eq, Hash, Debug, Default)]
pub struct Nat(pub Vec<u64>);

fn trim(v: &mut Vec<u64>) {
    while let Some(&0) = v.last() {
        v.pop();
    }
}

impl Nat {
    pub fn zero() -> Nat {
        Nat(Vec::new())
    }
    pub fn one() -> Nat {
        Nat(vec![1])
    }
    pub fn from_u64(x: u64) -> Nat {
        Nat::from_digits(&[x])
    }
    pub fn from_u128(x: u128) -> Nat {
        Nat::from_digits(&[x as u64, (x >> 64) as u64])
    }
    /// Any digit string (trailing zeros allowed) -> canonical value.
    pub fn from_digits(d: &[u64]) -> Nat {
        let mut v = d.to_vec();
        trim(&mut v);
        Nat(v)
    }
    pub fn from_u32_digits(d: &[u32]) -> Nat {
        let mut v = Vec::with_capacity(d.len() / 2 + 1);
        for c in d.chunks(2) {
            let lo = c[0] as u64;
            let hi = if c.len() > 1 { c[1] as u64 } else { 0 };
            v.push(lo | (hi << 32));
        }
        trim(&mut v);
        Nat(v)
    }
    pub fn from_bytes_le(b: &[u8]) -> Nat {
        let mut v = Vec::with_capacity(b.len() / 8 + 1);
        for c in b.chunks(8) {
            let mut x = 0u64;
            for (i, &y) in c.iter().enumerate() {
                x |= (y as u64) << (8 * i);
            }
            v.push(x);
        }
        trim(&mut v);
        Nat(v)
    }
    pub fn digits(&self) -> &[u64] {
        &self.0
    }
    pub fn len(&self) -> usize {
        self.0.len()
    }
    pub fn is_zero(&self) -> bool {
        self.0.is_empty()
    }
    pub fn is_one(&self) -> bool {
        self.0.len() == 1 && self.0[0] == 1
    }
    pub fn is_even(&self) -> bool {
        self.0.first().map_or(true, |d| d & 1 == 0)
    }
    pub fn bits(&self) -> u64 {
        match self.0.last() {
            None => 0,
            Some(&t) => (self.0.len() as u64) * 64 - t.leading_zeros() as u64,
        }
    }
    pub fn bit(&self, i: u64) -> bool {
        let d = (i / 64) as usize;
        d < self.0.len() && (self.0[d] >> (i % 64)) & 1 == 1
    }
    pub fn set_bit(&mut self, i: u64, v: bool) {
        let d = (i / 64) as usize;
        if v {
            if self.0.len() <= d {
                self.0.resize(d + 1, 0);
            }
            self.0[d] |= 1 << (i % 64);
        } else if d < self.0.len() {
            self.0[d] &= !(1 << (i % 64));
            trim(&mut self.0);
        }
    }
    pub fn trailing_zeros(&self) -> Option<u64> {
        for (i, &d) in self.0.iter().enumerate() {
            if d != 0 {
                return Some(i as u64 * 64 + d.trailing_zeros() as u64);
            }
        }
        None
    }
    pub fn trailing_ones(&self) -> u64 {
        let mut n = 0;
        for &d in &self.0 {
            if d == u64::MAX {
                n += 64;
            } else {
                return n + d.trailing_ones() as u64;
            }
        }
        n
    }
    pub fn count_ones(&self) -> u64 {
        self.0.iter().map(|d| d.count_ones() as u64).sum()
    }
    pub fn to_u64(&self) -> Option<u64> {
        match self.0.len() {
            0 => Some(0),
            1 => Some(self.0[0]),
            _ => None,
        }
    }
    pub fn to_u128(&self) -> Option<u128> {
        match self.0.len() {
            0 => Some(0),
            1 => Some(self.0[0] as u128),
            2 => Some(self.0[0] as u128 | (self.0[1] as u128) << 64),
            _ => None,
        }
    }
    pub fn to_u32_digits(&self) -> Vec<u32> {
        let mut v = Vec::with_capacity(self.0.len() * 2);
        for &d in &self.0 {
            v.push(d as u32);
            v.push((d >> 32) as u32);
        }
        while let Some(&0) = v.last() {
            v.pop();
        }
        v
    }
    /// base-256 digits, little endian, no trailing zero byte; zero -> empty
    pub fn to_bytes_le_min(&self) -> Vec<u8> {
        let mut v = Vec::with_capacity(self.0.len() * 8);
        for &d in &self.0 {
            v.extend_from_slice(&d.to_le_bytes());
        }
        while let Some(&0) = v.last() {
            v.pop();
        }
        v
    }
    pub fn cmp(&self, o: &Nat) -> Ordering {
        if self.0.len() != o.0.len() {
            return self.0.len().cmp(&o.0.len());
        }
        for i in (0..self.0.len()).rev() {
            if self.0[i] != o.0[i] {
                return self.0[i].cmp(&o.0[i]);
            }
        }
        Ordering::Equal
    }
    pub fn lt(&self, o: &Nat) -> bool {
        self.cmp(o) == Ordering::Less
    }
    pub fn le(&self, o: &Nat) -> bool {
        self.cmp(o) != Ordering::Greater
    }
    pub fn add(&self, o: &Nat) -> Nat {
        let n = self.0.len().max(o.0.len());
        let mut v = Vec::with_capacity(n + 1);
        let mut c = 0u128;
        for i in 0..n {
            let a = *self.0.get(i).unwrap_or(&0) as u128;
            let b = *o.0.get(i).unwrap_or(&0) as u128;
            let s = a + b + c;
            v.push(s as u64);
            c = s >> 64;
        }
        if c != 0 {
            v.push(c as u64);
        }
        Nat(v)
    }
    pub fn add_small(&self, x: u64) -> Nat {
        self.add(&Nat::from_u64(x))
    }
    /// self - o, None if negative
    pub fn sub(&self, o: &Nat) -> Option<Nat> {
        if self.lt(o) {
            return None;
        }
        let mut v = Vec::with_capacity(self.0.len());
        let mut borrow = 0i128;
        for i in 0..self.0.len() {
            let a = self.0[i] as i128;
            let b = *o.0.get(i).unwrap_or(&0) as i128;
            let mut s = a - b - borrow;
            if s < 0 {
                s += 1i128 << 64;
                borrow = 1;
            } else {
                borrow = 0;
            }
            v.push(s as u64);
        }
        debug_assert!(borrow == 0);
        trim(&mut v);
        Some(Nat(v))
    }
    pub fn mul(&self, o: &Nat) -> Nat {
        if self.is_zero() || o.is_zero() {
            return Nat::zero();
        }
        let mut v = vec![0u64; self.0.len() + o.0.len()];
        for (i, &a) in self.0.iter().enumerate() {
            if a == 0 {
                continue;
            }
            let mut c = 0u128;
            for (j, &b) in o.0.iter().enumerate() {
                let t = (a as u128) * (b as u128) + v[i + j] as u128 + c;
                v[i + j] = t as u64;
                c = t >> 64;
            }
            let mut k = i + o.0.len();
            while c != 0 {
                let t = v[k] as u128 + c;
                v[k] = t as u64;
                c = t >> 64;
                k += 1;
            }
        }
        trim(&mut v);
        Nat(v)
    }
    pub fn mul_small(&self, x: u64) -> Nat {
        self.mul(&Nat::from_u64(x))
    }
    pub fn shl(&self, k: u64) -> Nat {
        if self.is_zero() {
            return Nat::zero();
        }
        let w = (k / 64) as usize;
        let b = (k % 64) as u32;
        let mut v = vec![0u64; w];
        if b == 0 {
            v.extend_from_slice(&self.0);
        } else {
            let mut c = 0u64;
            for &d in &self.0 {
                v.push((d << b) | c);
                c = d >> (64 - b);
            }
            if c != 0 {
                v.push(c);
            }
        }
        Nat(v)
    }
    pub fn shr(&self, k: u64) -> Nat {
        let w = (k / 64) as usize;
        let b = (k % 64) as u32;
        if w >= self.0.len() {
            return Nat::zero();
        }
        let src = &self.0[w..];
        let mut v = Vec::with_capacity(src.len());
        for i in 0..src.len() {
            let lo = src[i] >> b;
            let hi = if b > 0 && i + 1 < src.len() { src[i + 1] << (64 - b) } else { 0 };
            v.push(lo | hi);
        }
        trim(&mut v);
        Nat(v)
    }
    /// true iff any of the low k bits is set
    pub fn low_bits_nonzero(&self, k: u64) -> bool {
        match self.trailing_zeros() {
            None => false,
            Some(tz) => tz < k,
        }
    }
    /// Binary shift-and-subtract division.  Panics on zero divisor.
    pub fn divrem(&self, d: &Nat) -> (Nat, Nat) {
        assert!(!d.is_zero(), "refint: division by zero");
        if self.lt(d) {
            return (Nat::zero(), self.clone());
        }
        let n = self.bits();
        let dl = d.0.len();
        // remainder register with one spare limb
        let mut r = vec![0u64; dl + 1];
        let mut q = vec![0u64; self.0.len()];
        for i in (0..n).rev() {
            // r = (r << 1) | bit_i
            let mut c = self.bit(i) as u64;
            for x in r.iter_mut() {
                let nc = *x >> 63;
                *x = (*x << 1) | c;
                c = nc;
            }
            // r >= d ?
            let mut ge = true;
            if r[dl] == 0 {
                for j in (0..dl).rev() {
                    if r[j] != d.0[j] {
                        ge = r[j] > d.0[j];
                        break;
                    }
                }
            }
            if ge {
                let mut borrow = 0u64;
                for j in 0..dl {
                    let (s1, b1) = r[j].overflowing_sub(d.0[j]);
                    let (s2, b2) = s1.overflowing_sub(borrow);
                    r[j] = s2;
                    borrow = (b1 | b2) as u64;
                }
                r[dl] = r[dl].wrapping_sub(borrow);
                q[(i / 64) as usize] |= 1 << (i % 64);
            }
        }
        trim(&mut q);
        trim(&mut r);
        (Nat(q), Nat(r))
    }
    pub fn divrem_small(&self, d: u64) -> (Nat, u64) {
        assert!(d != 0);
        let mut q = vec![0u64; self.0.len()];
        let mut r = 0u128;
        for i in (0..self.0.len()).rev() {
            let cur = (r << 64) | self.0[i] as u128;
            q[i] = (cur / d as u128) as u64;
            r = cur % d as u128;
        }
        trim(&mut q);
        (Nat(q), r as u64)
    }
    pub fn pow(&self, e: u64) -> Nat {
        let mut r = Nat::one();
        for _ in 0..e {
            r = r.mul(self);
        }
        r
    }
    pub fn gcd(&self, o: &Nat) -> Nat {
        let mut a = self.clone();
        let mut b = o.clone();
        while !b.is_zero() {
            let (_, r) = a.divrem(&b);
            a = b;
            b = r;
        }
        a
    }
    /// b^e mod m by left-to-right binary square-and-multiply with shift-subtract reduction
    pub fn modpow(&self, e: &Nat, m: &Nat) -> Nat {
        assert!(!m.is_zero());
        let mut r = Nat::one().divrem(m).1;
        let b = self.divrem(m).1;
        let n = e.bits();
        for i in (0..n).rev() {
            r = r.mul(&r).divrem(m).1;
            if e.bit(i) {
                r = r.mul(&b).divrem(m).1;
            }
        }
        r
    }
    pub fn to_hex(&self) -> String {
        if self.is_zero() {
            return "0".to_string();
        }
        let mut s = String::new();
        for (i, d) in self.0.iter().rev().enumerate() {
            if i == 0 {
                s.push_str(&format!("{:x}", d));
            } else {
                s.push_str(&format!("{:016x}", d));
            }
        }
        s
    }
    pub fn from_hex(s: &str) -> Nat {
        let b = s.as_bytes();
        let mut v = Vec::new();
        let mut end = b.len();
        while end > 0 {
            let start = end.saturating_sub(16);
            v.push(u64::from_str_radix(&s[start..end], 16).expect("hex"));
            end = start;
        }
        trim(&mut v);
        Nat(v)
    }
    /// Horner evaluation of a big-endian digit string in `radix`
    pub fn from_radix_be(digits: &[u8], radix: u32) -> Nat {
        let mut r = Nat::zero();
        for &d in digits {
            r = r.mul_small(radix as u64).add_small(d as u64);
        }
        r
    }
    /// Horner with chunking for long strings (groups of k digits while radix^k fits u64) -- still
    /// one multiply-add per chunk on the naive routines.
    pub fn from_radix_be_fast(digits: &[u8], radix: u32) -> Nat {
        let radix = radix as u64;
        let mut k = 1usize;
        let mut big = radix;
        while let Some(nb) = big.checked_mul(radix) {
            big = nb;
            k += 1;
        }
        let mut r = Nat::zero();
        let first = digits.len() % k;
        let mut pos = 0;
        if first > 0 {
            let mut c = 0u64;
            for &d in &digits[..first] {
                c = c * radix + d as u64;
            }
            r = Nat::from_u64(c);
            pos = first;
        }
        while pos < digits.len() {
            let mut c = 0u64;
            for &d in &digits[pos..pos + k] {
                c = c * radix + d as u64;
            }
            r = r.mul_small(big).add_small(c);
            pos += k;
        }
        r
    }
    /// little-endian digits in `radix` (2..=2^32) by repeated small division; zero -> [0]
    pub fn to_radix_le(&self, radix: u32) -> Vec<u32> {
        if self.is_zero() {
            return vec![0];
        }
        let mut v = Vec::new();
        let mut cur = self.clone();
        while !cur.is_zero() {
            let (q, r) = cur.divrem_small(radix as u64);
            v.push(r as u32);
            cur = q;
        }
        v
    }
    pub fn to_dec(&self) -> String {
        let d = self.to_radix_le(10);
        d.iter().rev().map(|&x| (b'0' + x as u8) as char).collect()
    }
    /// floor n-th root by bisection on bits (n >= 1)
    pub fn is_root_of(&self, x: &Nat, n: u32) -> bool {
        // self^n <= x < (self+1)^n with early exit
        fn pow_le(b: &Nat, n: u32, x: &Nat) -> bool {
            // b^n <= x ?
            if b.is_zero() {
                return true;
            }
            if b.is_one() {
                return !x.is_zero();
            }
            // b >= 2 so b^n >= 2^n; if n > bits(x) then b^n > x
            if n as u64 > x.bits() {
                return false;
            }
            let mut p = Nat::one();
            for _ in 0..n {
                p = p.mul(b);
                if p.bits() > x.bits() {
                    return false;
                }
            }
            p.le(x)
        }
        pow_le(self, n, x) && !pow_le(&self.add_small(1), n, x)
    }
}

/// Signed integer: sign-magnitude, zero is never negative.
#[derive(Clone, PartialEq, Eq, Hash, Debug, Default)]
pub struct Int {
    pub neg: bool,
    pub mag: Nat,
}

impl Int {
    pub fn new(neg: bool, mag: Nat) -> Int {
        Int { neg: neg && !mag.is_zero(), mag }
    }
    pub fn zero() -> Int {
        Int::new(false, Nat::zero())
    }
    pub fn from_nat(n: Nat) -> Int {
        Int::new(false, n)
    }
    pub fn from_i128(x: i128) -> Int {
        Int::new(x < 0, Nat::from_u128(x.unsigned_abs()))
    }
    pub fn from_i64(x: i64) -> Int {
        Int::from_i128(x as i128)
    }
    pub fn to_i128(&self) -> Option<i128> {
        let m = self.mag.to_u128()?;
        if self.neg {
            if m <= (1u128 << 127) {
                Some((m as i128).wrapping_neg())
            } else {
                None
            }
        } else if m < (1u128 << 127) {
            Some(m as i128)
        } else {
            None
        }
    }
    pub fn is_zero(&self) -> bool {
        self.mag.is_zero()
    }
    pub fn signum(&self) -> i32 {
        if self.mag.is_zero() {
            0
        } else if self.neg {
            -1
        } else {
            1
        }
    }
    pub fn neg(&self) -> Int {
        Int::new(!self.neg, self.mag.clone())
    }
    pub fn abs(&self) -> Int {
        Int::new(false, self.mag.clone())
    }
    pub fn cmp(&self, o: &Int) -> Ordering {
        match (self.neg, o.neg) {
            (false, true) => Ordering::Greater,
            (true, false) => Ordering::Less,
            (false, false) => self.mag.cmp(&o.mag),
            (true, true) => o.mag.cmp(&self.mag),
        }
    }
    pub fn add(&self, o: &Int) -> Int {
        if self.neg == o.neg {
            Int::new(self.neg, self.mag.add(&o.mag))
        } else if self.mag.lt(&o.mag) {
            Int::new(o.neg, o.mag.sub(&self.mag).unwrap())
        } else {
            Int::new(self.neg, self.mag.sub(&o.mag).unwrap())
        }
    }
    pub fn sub(&self, o: &Int) -> Int {
        self.add(&o.neg())
    }
    pub fn mul(&self, o: &Int) -> Int {
        Int::new(self.neg != o.neg, self.mag.mul(&o.mag))
    }
    /// truncating division (toward zero); remainder has the sign of self
    pub fn divrem_trunc(&self, o: &Int) -> (Int, Int) {
        let (q, r) = self.mag.divrem(&o.mag);
        (Int::new(self.neg != o.neg, q), Int::new(self.neg, r))
    }
    /// floor division; remainder has the sign of the divisor
    pub fn divrem_floor(&self, o: &Int) -> (Int, Int) {
        let (q, r) = self.divrem_trunc(o);
        if !r.is_zero() && (r.neg != o.neg) {
            (q.sub(&Int::from_i64(1)), r.add(o))
        } else {
            (q, r)
        }
    }
    /// euclidean: 0 <= r < |o|
    pub fn divrem_euclid(&self, o: &Int) -> (Int, Int) {
        let (q, r) = self.divrem_trunc(o);
        if r.neg {
            if o.neg {
                (q.add(&Int::from_i64(1)), r.sub(o))
            } else {
                (q.sub(&Int::from_i64(1)), r.add(o))
            }
        } else {
            (q, r)
        }
    }
    /// ceiling of the exact quotient
    pub fn div_ceil(&self, o: &Int) -> Int {
        let (q, r) = self.divrem_floor(o);
        if r.is_zero() {
            q
        } else {
            q.add(&Int::from_i64(1))
        }
    }
    pub fn shl(&self, k: u64) -> Int {
        Int::new(self.neg, self.mag.shl(k))
    }
    /// floor(self / 2^k)
    pub fn shr_floor(&self, k: u64) -> Int {
        let q = self.mag.shr(k);
        if self.neg && self.mag.low_bits_nonzero(k) {
            Int::new(true, q.add_small(1))
        } else {
            Int::new(self.neg, q)
        }
    }
    pub fn pow(&self, e: u64) -> Int {
        Int::new(self.neg && e % 2 == 1, self.mag.pow(e))
    }
    /// two's complement limbs, sign-extended to exactly `len` limbs (len must be large enough)
    pub fn to_twos(&self, len: usize) -> Vec<u64> {
        let mut v = self.mag.0.clone();
        assert!(len > v.len());
        v.resize(len, 0);
        if self.neg {
            let mut carry = true;
            for d in v.iter_mut() {
                let (x, c) = (!*d).overflowing_add(carry as u64);
                *d = x;
                carry = c;
            }
        }
        v
    }
    pub fn from_twos(v: &[u64]) -> Int {
        let neg = v.last().map_or(false, |&t| t >> 63 == 1);
        if !neg {
            return Int::new(false, Nat::from_digits(v));
        }
        let mut w = v.to_vec();
        let mut carry = true;
        for d in w.iter_mut() {
            let (x, c) = (!*d).overflowing_add(carry as u64);
            *d = x;
            carry = c;
        }
        Int::new(true, Nat::from_digits(&w))
    }
    fn bitop(&self, o: &Int, f: impl Fn(u64, u64) -> u64) -> Int {
        let len = self.mag.len().max(o.mag.len()) + 1;
        let a = self.to_twos(len);
        let b = o.to_twos(len);
        let r: Vec<u64> = a.iter().zip(&b).map(|(&x, &y)| f(x, y)).collect();
        Int::from_twos(&r)
    }
    pub fn and(&self, o: &Int) -> Int {
        self.bitop(o, |x, y| x & y)
    }
    pub fn or(&self, o: &Int) -> Int {
        self.bitop(o, |x, y| x | y)
    }
    pub fn xor(&self, o: &Int) -> Int {
        self.bitop(o, |x, y| x ^ y)
    }
    pub fn not(&self) -> Int {
        // !x = -x - 1
        self.neg().sub(&Int::from_i64(1))
    }
    /// bit i of the infinite two's complement expansion
    pub fn bit(&self, i: u64) -> bool {
        let len = self.mag.len() + 1;
        let t = self.to_twos(len);
        let d = (i / 64) as usize;
        if d >= len {
            self.neg
        } else {
            (t[d] >> (i % 64)) & 1 == 1
        }
    }
    pub fn set_bit(&self, i: u64, v: bool) -> Int {
        let len = self.mag.len().max((i / 64) as usize + 1) + 1;
        let mut t = self.to_twos(len);
        let d = (i / 64) as usize;
        if v {
            t[d] |= 1 << (i % 64);
        } else {
            t[d] &= !(1 << (i % 64));
        }
        Int::from_twos(&t)
    }
    pub fn to_hex(&self) -> String {
        if self.neg {
            format!("-{}", self.mag.to_hex())
        } else {
            self.mag.to_hex()
        }
    }
    pub fn from_hex(s: &str) -> Int {
        if let Some(r) = s.strip_prefix('-') {
            Int::new(true, Nat::from_hex(r))
        } else {
            Int::new(false, Nat::from_hex(s))
        }
    }
    /// shortest two's complement little-endian byte string (at least one byte)
    pub fn to_signed_bytes_le(&self) -> Vec<u8> {
        let len = self.mag.len() + 1;
        let t = self.to_twos(len);
        let mut b: Vec<u8> = t.iter().flat_map(|d| d.to_le_bytes()).collect();
        let ext = if self.neg { 0xffu8 } else { 0 };
        while b.len() > 1 {
            let n = b.len();
            if b[n - 1] == ext && (b[n - 2] >> 7 == ext >> 7) {
                b.pop();
            } else {
                break;
            }
        }
        b
    }
    pub fn from_signed_bytes_le(b: &[u8]) -> Int {
        if b.is_empty() {
            return Int::zero();
        }
        let neg = b[b.len() - 1] >> 7 == 1;
        let mut v = b.to_vec();
        let pad = if neg { 0xff } else { 0 };
        while v.len() % 8 != 0 {
            v.push(pad);
        }
        // one extra limb of sign extension
        v.extend_from_slice(&[pad; 8]);
        let limbs: Vec<u64> = v.chunks(8).map(|c| u64::from_le_bytes([c[0], c[1], c[2], c[3], c[4], c[5], c[6], c[7]])).collect();
        Int::from_twos(&limbs)
    }
}

/// Correctly rounded (nearest, ties to even) conversion of a natural number to an IEEE float with
/// `p` significant bits (incl. hidden bit), exponent field of `ebits` bits.  Returns the bit
/// pattern (without sign).  Overflow gives the +inf pattern.
pub fn nat_to_float_bits(n: &Nat, p: u32, ebits: u32) -> u64 {
    if n.is_zero() {
        return 0;
    }
    let bias = (1u64 << (ebits - 1)) - 1;
    let inf = ((1u64 << ebits) - 1) << (p - 1);
    let nbits = n.bits();
    let (mut mant, mut exp): (u64, u64); // value = mant * 2^exp, mant has exactly p bits (or fewer if exact)
    if nbits <= p as u64 {
        mant = n.to_u64().unwrap();
        // normalise to p bits
        let sh = p as u64 - nbits;
        mant <<= sh;
        // value = mant * 2^(-sh): unbiased exponent of leading bit = nbits-1
        exp = nbits - 1;
    } else {
        let sh = nbits - p as u64;
        let top = n.shr(sh).to_u64().unwrap();
        let half = n.bit(sh - 1);
        let sticky = n.low_bits_nonzero(sh - 1);
        mant = top;
        exp = nbits - 1;
        if half && (sticky || (top & 1 == 1)) {
            mant += 1;
            if mant >> p == 1 {
                mant >>= 1;
                exp += 1;
            }
        }
    }
    if exp > bias {
        return inf;
    }
    let e = exp + bias;
    (e << (p - 1)) | (mant & ((1u64 << (p - 1)) - 1))
}

pub fn nat_to_f64_bits(n: &Nat) -> u64 {
    nat_to_float_bits(n, 53, 11)
}
pub fn nat_to_f32_bits(n: &Nat) -> u32 {
    nat_to_float_bits(n, 24, 8) as u32
}

/// Truncation toward zero of the float given by bit pattern; None for NaN/inf.
pub fn float_bits_to_int(bits: u64, p: u32, ebits: u32) -> Option<Int> {
    let neg = (bits >> (p - 1 + ebits)) & 1 == 1;
    let e = (bits >> (p - 1)) & ((1u64 << ebits) - 1);
    let frac = bits & ((1u64 << (p - 1)) - 1);
    let bias = (1i64 << (ebits - 1)) - 1;
    if e == (1u64 << ebits) - 1 {
        return None;
    }
    let (mant, exp2) = if e == 0 { (frac, 1 - bias - (p as i64 - 1)) } else { (frac | (1u64 << (p - 1)), e as i64 - bias - (p as i64 - 1)) };
    let m = Nat::from_u64(mant);
    let v = if exp2 >= 0 { m.shl(exp2 as u64) } else { m.shr((-exp2) as u64) };
    Some(Int::new(neg, v))
}
