pub mod alpha;
pub mod refint;
pub mod runner;
