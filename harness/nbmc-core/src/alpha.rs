//! Shared alphabets (DESIGN.md section 3).  Everything here is a deterministic, finite list.

pub const M: u64 = u64::MAX;
pub const H: u64 = 1 << 63;

pub const SIGMA3: [u64; 3] = [0, 1, M];
pub const SIGMA5: [u64; 5] = [0, 1, H, M - 1, M];
pub const SIGMA8: [u64; 8] = [0, 1, 2, H - 1, H, H + 1, M - 1, M];
/// half-digit structure: values around 2^31, 2^32, 2^33, 2^63, an all-ones / all-zero upper or lower half
pub const SIGMA16: [u64; 16] = [0, 1, 2, 3, 0x8000_0000, 0xffff_ffff, 0x1_0000_0000, 0x1_0000_0001, 0x1_ffff_ffff, H - 1, H, H + 1, 0xffff_ffff_0000_0000, 0xffff_fffe_ffff_ffff, M - 1, M];
pub const SIGMA32: [u64; 8] = [0, 1, H, M - 1, M, 0xffff_ffff, 0x1_0000_0000, 0x1_0000_0001];

/// Every digit string over `sigma` of length <= `l` with non-zero top digit, plus the empty
/// string (zero).  Ordered by length, then odometer order (simplest first).
pub fn dense(sigma: &[u64], l: usize) -> Vec<Vec<u64>> {
    let mut out = vec![Vec::new()];
    for len in 1..=l {
        let mut idx = vec![0usize; len];
        loop {
            if sigma[idx[len - 1]] != 0 {
                out.push(idx.iter().map(|&i| sigma[i]).collect());
            }
            // increment
            let mut p = 0;
            loop {
                idx[p] += 1;
                if idx[p] < sigma.len() {
                    break;
                }
                idx[p] = 0;
                p += 1;
                if p == len {
                    break;
                }
            }
            if p == len {
                break;
            }
        }
    }
    out
}

/// Every digit string of length 1..=l made of at most k maximal runs of equal digits from sigma
/// (top run non-zero), plus the empty string.
pub fn runs(sigma: &[u64], k: usize, l: usize) -> Vec<Vec<u64>> {
    let mut out = vec![Vec::new()];
    for len in 1..=l {
        out.extend(runs_exact(sigma, k, len));
    }
    out
}

/// The members of `runs(sigma, k, len)` that have exactly length `len`.
pub fn runs_exact(sigma: &[u64], k: usize, len: usize) -> Vec<Vec<u64>> {
    if len == 0 {
        return vec![Vec::new()];
    }
    let mut out = Vec::new();
    for j in 1..=k.min(len) {
        compositions(len, j, &mut |parts: &[usize]| {
            let mut idx = vec![0usize; j];
            loop {
                let mut ok = sigma[idx[j - 1]] != 0;
                for t in 1..j {
                    if idx[t] == idx[t - 1] {
                        ok = false;
                    }
                }
                if ok {
                    let mut v = Vec::with_capacity(len);
                    for t in 0..j {
                        for _ in 0..parts[t] {
                            v.push(sigma[idx[t]]);
                        }
                    }
                    out.push(v);
                }
                let mut p = 0;
                loop {
                    idx[p] += 1;
                    if idx[p] < sigma.len() {
                        break;
                    }
                    idx[p] = 0;
                    p += 1;
                    if p == j {
                        break;
                    }
                }
                if p == j {
                    break;
                }
            }
        });
    }
    out
}

fn compositions(total: usize, parts: usize, f: &mut dyn FnMut(&[usize])) {
    fn rec(rem: usize, parts_left: usize, cur: &mut Vec<usize>, f: &mut dyn FnMut(&[usize])) {
        if parts_left == 1 {
            cur.push(rem);
            f(cur);
            cur.pop();
            return;
        }
        for first in 1..=(rem - (parts_left - 1)) {
            cur.push(first);
            rec(rem - first, parts_left - 1, cur, f);
            cur.pop();
        }
    }
    let mut cur = Vec::new();
    rec(total, parts, &mut cur, f);
}

/// fixed LCG (Knuth MMIX constants); no randomness anywhere in the harness
pub fn lcg(state: &mut u64) -> u64 {
    *state = state.wrapping_mul(6364136223846793005).wrapping_add(1442695040888963407);
    // mix high bits down so low bits are not short-period
    let x = *state;
    x ^ (x >> 29)
}

/// Deterministic dense digit string number `salt` of length `len`: LCG digits (no structure), top
/// digit right-shifted by `7*salt mod 64` bits so that the family covers many normalisation
/// shifts and top-digit widths.  This is a fixed finite family that is enumerated completely --
/// not a sample from a distribution.
pub fn lcg_digits(len: usize, salt: u64) -> Vec<u64> {
    if len == 0 {
        return Vec::new();
    }
    let mut s = 0xA076_1D64_78BD_642Fu64 ^ salt.wrapping_mul(0xE703_7ED1_A0B4_28DB) ^ ((len as u64) << 32);
    let mut v: Vec<u64> = (0..len).map(|_| lcg(&mut s)).collect();
    let sh = (7 * salt) % 64;
    v[len - 1] = (v[len - 1] >> sh) | 1;
    v
}

pub const NPAT: usize = 12;
pub const PAT_NAMES: [&str; NPAT] = [
    "allM", "all1", "top1", "lo0hiM", "loMhi1", "thirdsM0M", "thirds0M1", "botMtop1", "period3", "period7z", "lcgdense", "lcgpalin",
];

/// Twelve deterministic length-`l` digit patterns (top digit non-zero).  The half/third
/// patterns are relative to the split points the multiplication code uses.
pub fn pat(l: usize, which: usize) -> Vec<u64> {
    assert!(l >= 1);
    let mut v = vec![0u64; l];
    match which {
        0 => v.iter_mut().for_each(|d| *d = M),
        1 => v.iter_mut().for_each(|d| *d = 1),
        2 => v[l - 1] = 1,
        3 => {
            for i in l / 2..l {
                v[i] = M;
            }
        }
        4 => {
            for i in 0..l {
                v[i] = if i < l / 2 { M } else { 1 };
            }
        }
        5 => {
            let t = l / 3 + 1;
            for i in 0..l {
                v[i] = if i < t || i >= 2 * t { M } else { 0 };
            }
            if v[l - 1] == 0 {
                v[l - 1] = M;
            }
        }
        6 => {
            let t = l / 3 + 1;
            for i in 0..l {
                v[i] = if i < t {
                    0
                } else if i < 2 * t {
                    M
                } else {
                    1
                };
            }
            if v[l - 1] == 0 {
                v[l - 1] = 1;
            }
        }
        7 => {
            v[0] = M;
            v[l - 1] = if l == 1 { M } else { 1 };
        }
        8 => {
            let blk = [M, 1, H];
            for i in 0..l {
                v[i] = blk[i % 3];
            }
        }
        9 => {
            let blk = [M, 0, 0, 1, M - 1, 0, H];
            for i in 0..l {
                v[i] = blk[i % 7];
            }
            if v[l - 1] == 0 {
                v[l - 1] = 3;
            }
        }
        10 => {
            let mut s = 0x9E3779B97F4A7C15u64 ^ (l as u64);
            for d in v.iter_mut() {
                *d = lcg(&mut s) | 1;
            }
            v[l - 1] |= H;
        }
        11 => {
            let mut s = 0xD1B54A32D192ED03u64 ^ (l as u64);
            for i in 0..(l + 1) / 2 {
                let x = lcg(&mut s) | 1;
                v[i] = x;
                v[l - 1 - i] = x;
            }
        }
        _ => panic!("pattern index"),
    }
    debug_assert!(v[l - 1] != 0);
    v
}

/// Named pool of magnitudes used where the other operand or the operator form is enumerated.
pub fn pool_mags() -> Vec<Vec<u64>> {
    let mut p: Vec<Vec<u64>> = vec![
        vec![],
        vec![1],
        vec![2],
        vec![3],
        vec![10],
        vec![0xff],
        vec![0xffff_ffff],
        vec![0x1_0000_0000],
        vec![0x1_0000_0001],
        vec![H - 1],
        vec![H],
        vec![H + 1],
        vec![M - 1],
        vec![M],
        vec![0, 1],
        vec![1, 1],
        vec![M, 1],
        vec![0, H],
        vec![M, H - 1],
        vec![M, M],
        vec![0, 0, 1],
        vec![1, 0, 1],
        vec![M, M, M],
        vec![H, 0, H],
        vec![0, M, 1],
        vec![M, 0, 0, 1],
        vec![M, M, M, M, M, M],
        vec![1, 0, 0, 0, 0, H],
    ];
    p.push(pat(40, 10));
    p.push(pat(70, 11));
    p
}

pub fn scal_u64() -> Vec<u64> {
    vec![0, 1, 2, 3, 0x7fff_ffff, 0x8000_0000, 0x8000_0001, 0xffff_fffe, 0xffff_ffff, 0x1_0000_0000, 0x1_0000_0001, H - 1, H, H + 1, M - 1, M]
}

#[cfg(test)]
mod tests {
    use super::*;
    #[test]
    fn counts() {
        assert_eq!(dense(&SIGMA5, 2).len(), 1 + 4 + 20);
        assert_eq!(dense(&SIGMA5, 4).len(), 1 + 4 + 20 + 100 + 500);
        let r = runs(&SIGMA5, 2, 3);
        // no duplicates
        let mut s = r.clone();
        s.sort();
        s.dedup();
        assert_eq!(s.len(), r.len());
        for l in 1..40 {
            for w in 0..NPAT {
                assert_eq!(pat(l, w).len(), l);
                assert!(pat(l, w)[l - 1] != 0);
            }
        }
    }
}
