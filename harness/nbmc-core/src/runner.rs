//! Supervisor / worker protocol, statistics, evidence, replay files, known findings.
//!
//! A check binary calls `runner::main(spec, body)`.  Started without `NBMC_WORKER` it is the
//! supervisor: it re-executes itself as N worker processes, each of which runs `body` with a
//! `Ctx` that owns shard `k` of `N` (outer indices `i % N == k`), merges their results, writes
//! `evidence/<id>.json` and `replays/<id>-<hash>.json`, consults `known_findings.txt` and sets
//! the exit code (0 held, 1 violation, 2 machinery failure).

use serde_json::{json, Map, Value};
use std::collections::{BTreeMap, HashSet};
use std::io::{Read, Write};
use std::panic::{catch_unwind, AssertUnwindSafe};
use std::sync::atomic::{AtomicU64, AtomicUsize, Ordering};
use std::time::Instant;

#[derive(Clone, Copy, PartialEq, Eq, Debug)]
pub enum Tier {
    Quick,
    Thorough,
}
impl Tier {
    pub fn name(self) -> &'static str {
        match self {
            Tier::Quick => "quick",
            Tier::Thorough => "thorough",
        }
    }
    pub fn pick<T>(self, q: T, t: T) -> T {
        match self {
            Tier::Quick => q,
            Tier::Thorough => t,
        }
    }
}

pub struct Spec {
    pub id: &'static str,
    pub engine: &'static str,
    pub rule: &'static str,
    pub assumptions: &'static [&'static str],
    pub bounds_quick: &'static str,
    pub bounds_thorough: &'static str,
    /// number of seconds without progress after which a worker declares a hang
    pub hang_secs: u64,
    /// probe counter snapshot (name, hits) read at the end of each worker
    pub probes: Option<fn() -> Vec<(String, u64)>>,
    /// max workers (some checks are memory-heavy or sequential)
    pub max_workers: usize,
}

impl Spec {
    pub const fn new(id: &'static str) -> Spec {
        Spec { id, engine: "E-prod", rule: "", assumptions: &[], bounds_quick: "", bounds_thorough: "", hang_secs: 120, probes: None, max_workers: 16 }
    }
}

#[derive(Clone, Debug)]
pub struct Viol {
    pub key: String,
    pub space: String,
    pub outer: u64,
    pub what: String,
    pub args: Vec<String>,
    pub expected: String,
    pub got: String,
}

impl Viol {
    fn to_json(&self) -> Value {
        json!({"key": self.key, "space": self.space, "outer": self.outer, "what": self.what, "args": self.args, "expected": self.expected, "got": self.got})
    }
    fn from_json(v: &Value) -> Viol {
        let s = |k: &str| v[k].as_str().unwrap_or("").to_string();
        Viol {
            key: s("key"),
            space: s("space"),
            outer: v["outer"].as_u64().unwrap_or(0),
            what: s("what"),
            args: v["args"].as_array().map(|a| a.iter().map(|x| x.as_str().unwrap_or("").to_string()).collect()).unwrap_or_default(),
            expected: s("expected"),
            got: s("got"),
        }
    }
}

const MAX_VIOLS_PER_WORKER: usize = 40;
const MAX_OUTCOMES: usize = 1 << 20;
const MAX_SAMPLES_PER_SPACE: usize = 2;

#[derive(Default)]
pub struct SpaceStat {
    pub cases: u64,
    pub calls: u64,
    pub compared: u64,
    pub nontrivial: u64,
}

pub struct Ctx {
    pub tier: Tier,
    pub worker: usize,
    pub nworkers: usize,
    pub seed: u64,
    only: Option<(String, u64)>,
    cur_space: String,
    /// appended to every violation key (e.g. the environment kind a sub-run is executing under)
    pub key_suffix: String,
    cur_outer: u64,
    space_active: bool,
    pub spaces: BTreeMap<String, SpaceStat>,
    pub outcomes: HashSet<u64>,
    pub outcomes_capped: bool,
    pub viols: Vec<Viol>,
    pub viol_total: u64,
    pub samples: Vec<String>,
    space_samples: usize,
    pub counters: BTreeMap<String, u64>,
    pub goals: BTreeMap<String, u64>,
    transcript: Option<std::io::BufWriter<std::fs::File>>,
    tr_every: u64,
    tr_count: u64,
    pub tr_lines: u64,
    pub capped: Vec<String>,
    only_class: bool,
}

// progress / fault reporting state (process-global, read by signal handler and watchdog)
static PROGRESS: AtomicU64 = AtomicU64::new(0);
static CUR_OUTER: AtomicU64 = AtomicU64::new(0);
static CUR_INNER: AtomicU64 = AtomicU64::new(0);
static SPACE_NAME_LEN: AtomicUsize = AtomicUsize::new(0);
static mut SPACE_NAME: [u8; 64] = [0; 64];

fn set_space_name(s: &str) {
    let b = s.as_bytes();
    let n = b.len().min(64);
    unsafe {
        let p = std::ptr::addr_of_mut!(SPACE_NAME) as *mut u8;
        std::ptr::copy_nonoverlapping(b.as_ptr(), p, n);
    }
    SPACE_NAME_LEN.store(n, Ordering::SeqCst);
}

fn write_fault(tag: &str) {
    // async-signal-safe: format into a stack buffer by hand
    let mut buf = [0u8; 256];
    let mut n = 0usize;
    let mut put = |s: &[u8], buf: &mut [u8; 256], n: &mut usize| {
        for &c in s {
            if *n < 255 {
                buf[*n] = c;
                *n += 1;
            }
        }
    };
    fn num(mut x: u64, out: &mut [u8; 20]) -> usize {
        let mut i = 20;
        if x == 0 {
            i -= 1;
            out[i] = b'0';
        }
        while x > 0 {
            i -= 1;
            out[i] = b'0' + (x % 10) as u8;
            x /= 10;
        }
        i
    }
    put(b"\nFAULT sig=", &mut buf, &mut n);
    put(tag.as_bytes(), &mut buf, &mut n);
    put(b" space=", &mut buf, &mut n);
    let l = SPACE_NAME_LEN.load(Ordering::SeqCst);
    let name = unsafe { std::slice::from_raw_parts(std::ptr::addr_of!(SPACE_NAME) as *const u8, l) };
    put(name, &mut buf, &mut n);
    put(b" outer=", &mut buf, &mut n);
    let mut t = [0u8; 20];
    let i = num(CUR_OUTER.load(Ordering::SeqCst), &mut t);
    put(&t[i..], &mut buf, &mut n);
    put(b" inner=", &mut buf, &mut n);
    let i = num(CUR_INNER.load(Ordering::SeqCst), &mut t);
    put(&t[i..], &mut buf, &mut n);
    put(b"\n", &mut buf, &mut n);
    unsafe {
        libc::write(2, buf.as_ptr() as *const libc::c_void, n);
    }
}

extern "C" fn fault_handler(sig: libc::c_int) {
    let tag = match sig {
        libc::SIGSEGV => "SIGSEGV",
        libc::SIGFPE => "SIGFPE",
        libc::SIGBUS => "SIGBUS",
        libc::SIGILL => "SIGILL",
        libc::SIGABRT => "SIGABRT",
        _ => "SIG?",
    };
    write_fault(tag);
    unsafe { libc::_exit(128 + sig) }
}

fn install_fault_handlers(hang_secs: u64) {
    unsafe {
        // alternate stack so stack overflow is reported too
        let sz = 1 << 16;
        let stack = libc::mmap(std::ptr::null_mut(), sz, libc::PROT_READ | libc::PROT_WRITE, libc::MAP_PRIVATE | libc::MAP_ANONYMOUS, -1, 0);
        let ss = libc::stack_t { ss_sp: stack, ss_flags: 0, ss_size: sz };
        libc::sigaltstack(&ss, std::ptr::null_mut());
        for &s in &[libc::SIGSEGV, libc::SIGFPE, libc::SIGBUS, libc::SIGILL, libc::SIGABRT] {
            let mut sa: libc::sigaction = std::mem::zeroed();
            sa.sa_sigaction = fault_handler as usize;
            sa.sa_flags = libc::SA_ONSTACK;
            libc::sigaction(s, &sa, std::ptr::null_mut());
        }
    }
    if hang_secs > 0 {
        std::thread::spawn(move || {
            let mut last = PROGRESS.load(Ordering::Relaxed);
            let mut idle = 0u64;
            loop {
                std::thread::sleep(std::time::Duration::from_secs(1));
                let cur = PROGRESS.load(Ordering::Relaxed);
                if cur == last {
                    idle += 1;
                    if idle >= hang_secs {
                        write_fault("HANG");
                        unsafe { libc::_exit(3) }
                    }
                } else {
                    idle = 0;
                    last = cur;
                }
            }
        });
    }
}

/// Progress tick for explorations that run for a long time without entering `Ctx::mine` / `inner`
/// (the stateright search): keeps the watchdog from mistaking them for a hang.
pub fn tick() {
    PROGRESS.fetch_add(1, Ordering::Relaxed);
}

/// Run `f`, catching a panic; the panic message is returned as Err.
pub fn guard<T>(f: impl FnOnce() -> T) -> Result<T, String> {
    match catch_unwind(AssertUnwindSafe(f)) {
        Ok(v) => Ok(v),
        Err(e) => {
            let msg = if let Some(s) = e.downcast_ref::<&str>() {
                s.to_string()
            } else if let Some(s) = e.downcast_ref::<String>() {
                s.clone()
            } else {
                "<non-string panic>".to_string()
            };
            Err(msg)
        }
    }
}

pub fn fnv(data: &[u64]) -> u64 {
    let mut h = 0xcbf29ce484222325u64;
    for &d in data {
        h ^= d;
        h = h.wrapping_mul(0x100000001b3);
        h ^= h >> 29;
    }
    h
}

impl Ctx {
    fn new(tier: Tier, worker: usize, nworkers: usize, seed: u64, only: Option<(String, u64)>) -> Ctx {
        Ctx {
            tier,
            worker,
            nworkers,
            seed,
            only,
            cur_space: String::new(),
            key_suffix: String::new(),
            cur_outer: 0,
            space_active: false,
            spaces: BTreeMap::new(),
            outcomes: HashSet::new(),
            outcomes_capped: false,
            viols: Vec::new(),
            viol_total: 0,
            samples: Vec::new(),
            space_samples: 0,
            counters: BTreeMap::new(),
            goals: BTreeMap::new(),
            transcript: None,
            tr_every: 1,
            tr_count: 0,
            tr_lines: 0,
            capped: Vec::new(),
            only_class: std::env::var("NBMC_ONLY_CLASS").is_ok(),
        }
    }
    pub fn is_replay(&self) -> bool {
        self.only.is_some()
    }
    /// Enter a named sub-space.  Returns false if a replay filter selects a different space.
    pub fn space(&mut self, name: &str) -> bool {
        self.cur_space = name.to_string();
        self.space_samples = 0;
        set_space_name(name);
        self.space_active = match &self.only {
            Some((s, _)) => s == name,
            None => true,
        };
        if self.space_active {
            self.spaces.entry(name.to_string()).or_default();
        }
        self.space_active
    }
    /// Does outer index `i` of the current space belong to this worker?
    #[inline]
    pub fn mine(&mut self, i: u64) -> bool {
        let m = match &self.only {
            Some((_, o)) => *o == i,
            None => (i.wrapping_add(self.seed) % self.nworkers as u64) == self.worker as u64,
        };
        if m {
            self.cur_outer = i;
            CUR_OUTER.store(i, Ordering::Relaxed);
            PROGRESS.fetch_add(1, Ordering::Relaxed);
        }
        m
    }
    #[inline]
    pub fn inner(&mut self, j: u64) {
        CUR_INNER.store(j, Ordering::Relaxed);
        PROGRESS.fetch_add(1, Ordering::Relaxed);
    }
    fn st(&mut self) -> &mut SpaceStat {
        self.spaces.get_mut(&self.cur_space).expect("space() not called")
    }
    #[inline]
    pub fn case(&mut self) {
        self.st().cases += 1;
    }
    #[inline]
    pub fn cases(&mut self, n: u64) {
        self.st().cases += n;
    }
    #[inline]
    pub fn calls(&mut self, n: u64) {
        self.st().calls += n;
    }
    #[inline]
    pub fn compared(&mut self, n: u64) {
        self.st().compared += n;
    }
    #[inline]
    pub fn nontrivial(&mut self, n: u64) {
        self.st().nontrivial += n;
    }
    #[inline]
    pub fn outcome(&mut self, h: u64) {
        if self.outcomes.len() < MAX_OUTCOMES {
            self.outcomes.insert(h);
        } else {
            self.outcomes_capped = true;
        }
    }
    pub fn outcome_digits(&mut self, d: &[u64]) {
        self.outcome(fnv(d));
    }
    pub fn outcome_str(&mut self, s: &str) {
        let mut h = 0xcbf29ce484222325u64;
        for &b in s.as_bytes() {
            h ^= b as u64;
            h = h.wrapping_mul(0x100000001b3);
        }
        self.outcome(h);
    }
    pub fn count(&mut self, name: &str, n: u64) {
        *self.counters.entry(name.to_string()).or_insert(0) += n;
    }
    /// keep the maximum (name should start with "max." so that workers are merged by maximum too)
    pub fn count_max(&mut self, name: &str, n: u64) {
        let e = self.counters.entry(name.to_string()).or_insert(0);
        *e = (*e).max(n);
    }
    /// non-vacuity goal reached (E-hist `sometimes` properties)
    pub fn goal(&mut self, name: &str) {
        *self.goals.entry(name.to_string()).or_insert(0) += 1;
    }
    pub fn sample(&mut self, f: impl FnOnce() -> String) {
        if self.space_samples < MAX_SAMPLES_PER_SPACE && self.worker == 0 {
            self.space_samples += 1;
            let s = f();
            self.samples.push(format!("[{}] {}", self.cur_space, s));
        }
    }
    pub fn viol(&mut self, key: String, what: &str, args: Vec<String>, expected: String, got: String) {
        if self.only_class {
            // C14 mode: only outcome-class violations count (panic / no panic / None / fault)
            let w = what.to_ascii_lowercase();
            let class = w.contains("panic") || w.contains("fault") || w.contains("terminate") || w.contains("checked") || got.starts_with("panic") || got.starts_with("Panic") || w.contains("instead of") || w.contains("accepted");
            if !class {
                return;
            }
        }
        self.viol_total += 1;
        let key = if self.key_suffix.is_empty() { key } else { format!("{}{}", key, self.key_suffix) };
        if self.viols.len() < MAX_VIOLS_PER_WORKER && !self.viols.iter().any(|v| v.key == key) {
            self.viols.push(Viol { key, space: self.cur_space.clone(), outer: self.cur_outer, what: what.to_string(), args, expected, got });
        }
    }
    /// a cap cut the exploration short: the run is not exhaustive
    pub fn cap_hit(&mut self, what: &str) {
        self.capped.push(format!("[{}] {}", self.cur_space, what));
    }
    /// emit a transcript line for the Python cross-check of the reference model (sampled 1/k)
    #[inline]
    pub fn tr(&mut self, f: impl FnOnce() -> String) {
        if self.transcript.is_some() {
            self.tr_count += 1;
            if self.tr_count % self.tr_every == 1 || self.tr_every == 1 {
                let line = f();
                let w = self.transcript.as_mut().unwrap();
                let _ = w.write_all(line.as_bytes());
                let _ = w.write_all(b"\n");
                self.tr_lines += 1;
            }
        }
    }
    pub fn set_transcript_every(&mut self, k: u64) {
        self.tr_every = k.max(1);
    }

    fn to_json(&self) -> Value {
        let mut sp = Map::new();
        for (k, s) in &self.spaces {
            sp.insert(k.clone(), json!({"cases": s.cases, "calls": s.calls, "compared": s.compared, "nontrivial": s.nontrivial}));
        }
        json!({
            "spaces": sp,
            "outcomes": self.outcomes.iter().collect::<Vec<_>>(),
            "outcomes_capped": self.outcomes_capped,
            "viols": self.viols.iter().map(|v| v.to_json()).collect::<Vec<_>>(),
            "viol_total": self.viol_total,
            "samples": self.samples,
            "counters": self.counters,
            "goals": self.goals,
            "tr_lines": self.tr_lines,
            "capped": self.capped,
        })
    }
}

fn verif_root() -> std::path::PathBuf {
    if let Ok(r) = std::env::var("NBMC_ROOT") {
        return r.into();
    }
    std::env::current_dir().unwrap()
}

struct Known {
    key: String,
    desc: String,
}

fn load_known(id: &str) -> Vec<Known> {
    let p = verif_root().join("known_findings.txt");
    let mut out = Vec::new();
    if let Ok(s) = std::fs::read_to_string(p) {
        for line in s.lines() {
            let line = line.trim();
            if let Some(rest) = line.strip_prefix("known:") {
                // known: property=C03 key=<key> :: description
                let rest = rest.trim();
                let (head, desc) = match rest.split_once(" :: ") {
                    Some((h, d)) => (h, d),
                    None => (rest, ""),
                };
                let mut prop = "";
                let mut key = "";
                if let Some((p, k)) = head.split_once(" key=") {
                    prop = p.trim().strip_prefix("property=").unwrap_or("");
                    key = k.trim();
                }
                if prop == id && !key.is_empty() {
                    out.push(Known { key: key.to_string(), desc: desc.to_string() });
                }
            }
        }
    }
    out
}

/// The property id under which this run reports (C14 re-runs other properties' binaries).
fn eff_id(spec: &Spec) -> String {
    std::env::var("NBMC_AS").unwrap_or_else(|_| spec.id.to_string())
}

fn hash_str(s: &str) -> u64 {
    let mut h = 0xcbf29ce484222325u64;
    for &b in s.as_bytes() {
        h ^= b as u64;
        h = h.wrapping_mul(0x100000001b3);
    }
    h
}

pub fn main(spec: Spec, body: fn(&mut Ctx)) -> ! {
    let args: Vec<String> = std::env::args().collect();
    std::panic::set_hook(Box::new(|_| {}));
    let seed: u64 = std::env::var("VERIF_SEED").ok().and_then(|s| s.parse().ok()).unwrap_or(0);
    if args.len() >= 3 && args[1] == "--replay" {
        std::process::exit(replay(&spec, body, &args[2], seed));
    }
    let tier = match args.get(1).map(|s| s.as_str()) {
        Some("quick") => Tier::Quick,
        Some("thorough") => Tier::Thorough,
        _ => {
            eprintln!("usage: {} quick|thorough | --replay <file>", args[0]);
            std::process::exit(2);
        }
    };
    if let Ok(w) = std::env::var("NBMC_WORKER") {
        let (k, n) = w.split_once('/').expect("NBMC_WORKER=k/n");
        worker(&spec, body, tier, k.parse().unwrap(), n.parse().unwrap(), seed);
    }
    std::process::exit(supervise(&spec, tier, seed));
}

fn worker(spec: &Spec, body: fn(&mut Ctx), tier: Tier, k: usize, n: usize, seed: u64) -> ! {
    install_fault_handlers(spec.hang_secs);
    let mut ctx = Ctx::new(tier, k, n, seed, None);
    if let Ok(dir) = std::env::var("NBMC_TRANSCRIPT") {
        let p = std::path::Path::new(&dir).join(format!("{}-w{}.tr", spec.id, k));
        ctx.transcript = Some(std::io::BufWriter::new(std::fs::File::create(p).expect("transcript file")));
    }
    let r = guard(|| body(&mut ctx));
    if let Err(msg) = r {
        // A panic that escaped the check body: the harness could not process what the library handed back for
        // the case in flight (an invalid String, inconsistent lengths, ...).  The enumeration is deterministic and
        // the same inputs are processed without incident on a conforming library, so this is reported like a
        // process fault, attributed to the case in flight (never on the unchanged tree, where it cannot occur
        // without also failing the run).
        let one_line: String = msg.chars().map(|c| if c.is_control() { ' ' } else { c }).take(300).collect();
        eprintln!("HARNESSPANIC {}", one_line);
        write_fault("HARNESS");
        std::process::exit(3);
    }
    if let Some(p) = spec.probes {
        for (name, hits) in p() {
            ctx.count(&format!("probe.{}", name), hits);
        }
    }
    if let Some(t) = ctx.transcript.as_mut() {
        let _ = t.flush();
    }
    let out = std::io::stdout();
    let mut o = out.lock();
    let _ = writeln!(o, "RESULT {}", ctx.to_json());
    let _ = o.flush();
    std::process::exit(0);
}

struct Merged {
    spaces: BTreeMap<String, SpaceStat>,
    outcomes: HashSet<u64>,
    outcomes_capped: bool,
    viols: Vec<Viol>,
    viol_total: u64,
    samples: Vec<String>,
    counters: BTreeMap<String, u64>,
    goals: BTreeMap<String, u64>,
    tr_lines: u64,
    capped: Vec<String>,
    machinery: Vec<String>,
}

fn merge_into(m: &mut Merged, v: &Value) {
    if let Some(sp) = v["spaces"].as_object() {
        for (k, s) in sp {
            let e = m.spaces.entry(k.clone()).or_default();
            e.cases += s["cases"].as_u64().unwrap_or(0);
            e.calls += s["calls"].as_u64().unwrap_or(0);
            e.compared += s["compared"].as_u64().unwrap_or(0);
            e.nontrivial += s["nontrivial"].as_u64().unwrap_or(0);
        }
    }
    if let Some(a) = v["outcomes"].as_array() {
        for x in a {
            if let Some(h) = x.as_u64() {
                m.outcomes.insert(h);
            }
        }
    }
    m.outcomes_capped |= v["outcomes_capped"].as_bool().unwrap_or(false);
    if let Some(a) = v["viols"].as_array() {
        for x in a {
            let vi = Viol::from_json(x);
            if !m.viols.iter().any(|y| y.key == vi.key) {
                m.viols.push(vi);
            }
        }
    }
    m.viol_total += v["viol_total"].as_u64().unwrap_or(0);
    if let Some(a) = v["samples"].as_array() {
        for x in a {
            if let Some(s) = x.as_str() {
                m.samples.push(s.to_string());
            }
        }
    }
    for (field, target) in [("counters", &mut m.counters), ("goals", &mut m.goals)] {
        if let Some(o) = v[field].as_object() {
            for (k, x) in o {
                let e = target.entry(k.clone()).or_insert(0);
                if k.starts_with("max.") {
                    *e = (*e).max(x.as_u64().unwrap_or(0));
                } else {
                    *e += x.as_u64().unwrap_or(0);
                }
            }
        }
    }
    m.tr_lines += v["tr_lines"].as_u64().unwrap_or(0);
    if let Some(a) = v["capped"].as_array() {
        for x in a {
            if let Some(s) = x.as_str() {
                if !m.capped.iter().any(|c| c == s) {
                    m.capped.push(s.to_string());
                }
            }
        }
    }
}

fn supervise(spec: &Spec, tier: Tier, seed: u64) -> i32 {
    let t0 = Instant::now();
    let id = eff_id(spec);
    let id = id.as_str();
    let ncpu = std::thread::available_parallelism().map(|n| n.get()).unwrap_or(4);
    let n = std::env::var("NBMC_WORKERS").ok().and_then(|s| s.parse().ok()).unwrap_or(ncpu).min(spec.max_workers).max(1);
    let exe = std::env::current_exe().unwrap();
    let root = verif_root();
    let trdir = root.join("target").join("transcripts");
    let want_tr = std::env::var("NBMC_NO_PYREF").is_err();
    if want_tr {
        let _ = std::fs::create_dir_all(&trdir);
        if let Ok(rd) = std::fs::read_dir(&trdir) {
            for e in rd.flatten() {
                if e.file_name().to_string_lossy().starts_with(&format!("{}-w", spec.id)) {
                    let _ = std::fs::remove_file(e.path());
                }
            }
        }
    }
    let mut children = Vec::new();
    for k in 0..n {
        let mut c = std::process::Command::new(&exe);
        c.arg(tier.name()).env("NBMC_WORKER", format!("{}/{}", k, n)).stdout(std::process::Stdio::piped()).stderr(std::process::Stdio::piped());
        if want_tr {
            c.env("NBMC_TRANSCRIPT", &trdir);
        }
        let mut child = c.spawn().expect("spawn worker");
        // reader threads so no pipe ever blocks a worker
        let mut so = child.stdout.take().unwrap();
        let mut se = child.stderr.take().unwrap();
        let h1 = std::thread::spawn(move || {
            let mut s = String::new();
            let _ = so.read_to_string(&mut s);
            s
        });
        let h2 = std::thread::spawn(move || {
            let mut s = Vec::new();
            let _ = se.read_to_end(&mut s);
            String::from_utf8_lossy(&s).to_string()
        });
        children.push((k, child, h1, h2));
    }
    let mut m = Merged {
        spaces: BTreeMap::new(),
        outcomes: HashSet::new(),
        outcomes_capped: false,
        viols: Vec::new(),
        viol_total: 0,
        samples: Vec::new(),
        counters: BTreeMap::new(),
        goals: BTreeMap::new(),
        tr_lines: 0,
        capped: Vec::new(),
        machinery: Vec::new(),
    };
    let mut incomplete = false;
    for (k, mut child, h1, h2) in children {
        let status = child.wait().expect("wait");
        let out = h1.join().unwrap();
        let err = h2.join().unwrap();
        let mut got_result = false;
        for line in out.lines() {
            if let Some(j) = line.strip_prefix("RESULT ") {
                match serde_json::from_str::<Value>(j) {
                    Ok(v) => {
                        merge_into(&mut m, &v);
                        got_result = true;
                    }
                    Err(e) => m.machinery.push(format!("worker {} produced unparsable result: {}", k, e)),
                }
            }
        }
        if !got_result {
            incomplete = true;
            // a fault of the process under test?
            let mut fault = None;
            let mut harness_msg = String::new();
            for line in err.lines() {
                if let Some(rest) = line.strip_prefix("FAULT ") {
                    fault = Some(rest.to_string());
                }
                if let Some(rest) = line.strip_prefix("HARNESSPANIC ") {
                    harness_msg = rest.to_string();
                }
            }
            match fault {
                Some(f) => {
                    let mut sig = "";
                    let mut space = "";
                    let mut outer = 0u64;
                    let mut inner = 0u64;
                    for tok in f.split_whitespace() {
                        if let Some((a, b)) = tok.split_once('=') {
                            match a {
                                "sig" => sig = b,
                                "space" => space = b,
                                "outer" => outer = b.parse().unwrap_or(0),
                                "inner" => inner = b.parse().unwrap_or(0),
                                _ => {}
                            }
                        }
                    }
                    let what = if sig == "HANG" {
                        "operation did not terminate (watchdog)"
                    } else if sig == "HARNESS" {
                        "the check could not process what the library returned for this case (the same inputs are processed without incident on a conforming library)"
                    } else {
                        "process fault while executing a case"
                    };
                    m.viol_total += 1;
                    m.viols.push(Viol {
                        key: format!("fault:{}:{}:{}:{}", sig, space, outer, inner),
                        space: space.to_string(),
                        outer,
                        what: what.to_string(),
                        args: vec![format!("inner={}", inner)],
                        expected: "normal return or panic".to_string(),
                        got: if sig == "HARNESS" { format!("HARNESS {}", harness_msg) } else { sig.to_string() },
                    });
                }
                None => {
                    let tail: String = err.lines().rev().take(5).collect::<Vec<_>>().join(" | ");
                    m.machinery.push(format!("worker {} exited with {:?} and no result: {}", k, status, tail));
                }
            }
        }
    }
    // Python cross-check of the reference model
    let mut pyref = json!({"enabled": false});
    if want_tr && m.tr_lines > 0 {
        let script = root.join("pyref").join("crosscheck.py");
        let mut files = Vec::new();
        if let Ok(rd) = std::fs::read_dir(&trdir) {
            for e in rd.flatten() {
                if e.file_name().to_string_lossy().starts_with(&format!("{}-w", spec.id)) {
                    files.push(e.path());
                }
            }
        }
        files.sort();
        let o = std::process::Command::new("python3").arg(&script).args(&files).output();
        match o {
            Ok(o) => {
                let so = String::from_utf8_lossy(&o.stdout).to_string();
                let mut lines_checked = 0u64;
                for l in so.lines() {
                    if let Some(r) = l.strip_prefix("PYREF lines=") {
                        lines_checked = r.split_whitespace().next().and_then(|x| x.parse().ok()).unwrap_or(0);
                    }
                }
                if !o.status.success() {
                    m.machinery.push(format!("reference model disagrees with Python: {}", so.lines().take(5).collect::<Vec<_>>().join(" | ")));
                }
                pyref = json!({"enabled": true, "lines_checked": lines_checked, "ok": o.status.success()});
            }
            Err(e) => m.machinery.push(format!("cannot run python cross-check: {}", e)),
        }
        for f in files {
            let _ = std::fs::remove_file(f);
        }
    }

    let known = load_known(id);
    let mut known_hits: Vec<(&Known, &Viol)> = Vec::new();
    let mut fresh: Vec<&Viol> = Vec::new();
    for v in &m.viols {
        match known.iter().find(|k| k.key == v.key) {
            Some(k) => known_hits.push((k, v)),
            None => fresh.push(v),
        }
    }
    // replay files
    let rdir = root.join("replays");
    let _ = std::fs::create_dir_all(&rdir);
    let mut lines = Vec::new();
    for v in &fresh {
        let config = std::env::var("NBMC_CONFIG").unwrap_or_else(|_| "rel".to_string());
        let name = format!("{}-{:016x}.json", id, hash_str(&format!("{}{}{}", config, spec.id, v.key)));
        let p = rdir.join(&name);
        let j = json!({"property": id, "bin": spec.id.to_lowercase(), "tier": tier.name(), "seed": seed, "config": config, "violation": v.to_json()});
        let _ = std::fs::write(&p, serde_json::to_string_pretty(&j).unwrap());
        lines.push(format!("VIOLATION property={} replay=replays/{}  # [{}] {} :: expected {} got {}", id, name, config, v.what, trunc(&v.expected), trunc(&v.got)));
    }
    for (k, v) in &known_hits {
        println!("KNOWN-FINDING: property={} {} ({})", id, v.key, if k.desc.is_empty() { &v.what } else { &k.desc });
    }
    for l in lines.iter().take(40) {
        println!("{}", l);
    }

    // evidence
    let mut states = 0u64;
    let mut transitions = 0u64;
    let mut compared = 0u64;
    let mut nontrivial = 0u64;
    let mut spj = Map::new();
    for (k, s) in &m.spaces {
        states += s.cases;
        transitions += s.calls;
        compared += s.compared;
        nontrivial += s.nontrivial;
        spj.insert(k.clone(), json!({"cases": s.cases, "calls": s.calls, "compared": s.compared, "nontrivial": s.nontrivial}));
    }
    let exhaustive = !incomplete && m.capped.is_empty() && m.machinery.is_empty();
    let wall = t0.elapsed().as_secs_f64();
    let mut samples: Vec<Value> = m.samples.iter().take(24).map(|s| Value::String(s.clone())).collect();
    if samples.is_empty() {
        samples.push(Value::String("(no sample recorded)".into()));
    }
    let ev = json!({
        "property_id": id,
        "binary": spec.id,
        "tier": tier.name(),
        "seed": seed,
        "level": "model_checking",
        "coverage": {
            "states": states,
            "transitions": transitions,
            "traces_validated_against_impl": compared,
            "evaluations": states,
            "distinct_nontrivial": nontrivial,
            "rule": spec.rule,
            "samples": samples,
            "exhaustive": exhaustive,
            "engine": spec.engine,
            "distinct_outcomes": m.outcomes.len(),
            "distinct_outcomes_is_lower_bound": m.outcomes_capped,
            "bounds": tier.pick(spec.bounds_quick, spec.bounds_thorough),
            "spaces": spj,
            "probe_hits_and_counters": m.counters,
            "sometimes_goals": m.goals,
            "caps_hit": m.capped,
            "workers": n,
            "refmodel_python_crosscheck": pyref,
            "known_findings_matched": known_hits.len(),
            "violations_total_including_duplicates": m.viol_total,
            "machinery_errors": m.machinery,
        },
        "assumptions": spec.assumptions,
        "wall_s": wall,
        "violations": fresh.len(),
    });
    // multi-configuration checks write one part per configuration; a merge step builds the final file
    match std::env::var("NBMC_PART") {
        Ok(part) => {
            let edir = root.join("target").join("evidence-parts");
            let _ = std::fs::create_dir_all(&edir);
            std::fs::write(edir.join(format!("{}.{}.json", id, part)), serde_json::to_string_pretty(&ev).unwrap()).expect("write evidence part");
        }
        Err(_) => {
            let edir = root.join("evidence");
            let _ = std::fs::create_dir_all(&edir);
            std::fs::write(edir.join(format!("{}.json", id)), serde_json::to_string_pretty(&ev).unwrap()).expect("write evidence");
        }
    }
    println!(
        "{}{} {}: states={} transitions={} compared={} nontrivial={} distinct_outcomes={} violations={} known={} exhaustive={} wall={:.1}s",
        id,
        if id != spec.id { format!("[{}]", spec.id) } else { String::new() },
        tier.name(),
        states,
        transitions,
        compared,
        nontrivial,
        m.outcomes.len(),
        fresh.len(),
        known_hits.len(),
        exhaustive,
        wall
    );
    if !fresh.is_empty() {
        return 1;
    }
    if !m.machinery.is_empty() {
        for e in &m.machinery {
            eprintln!("MACHINERY: {}", e);
        }
        return 2;
    }
    if !m.capped.is_empty() {
        for c in &m.capped {
            println!("CAP: {}", c);
        }
    }
    0
}

fn trunc(s: &str) -> String {
    if s.len() > 120 {
        format!("{}...", &s[..120])
    } else {
        s.to_string()
    }
}

fn replay(spec: &Spec, body: fn(&mut Ctx), path: &str, seed: u64) -> i32 {
    let s = match std::fs::read_to_string(path) {
        Ok(s) => s,
        Err(e) => {
            eprintln!("cannot read {}: {}", path, e);
            return 2;
        }
    };
    let j: Value = serde_json::from_str(&s).expect("replay json");
    let id = eff_id(spec);
    if j["property"].as_str() != Some(id.as_str()) {
        eprintln!("replay file is for property {:?}, this is {}", j["property"], id);
        return 2;
    }
    let tier = if j["tier"].as_str() == Some("thorough") { Tier::Thorough } else { Tier::Quick };
    let v = Viol::from_json(&j["violation"]);
    if v.key.starts_with("fault:") {
        // run in a subprocess so the fault is observable
        if std::env::var("NBMC_REPLAY_CHILD").is_err() {
            let exe = std::env::current_exe().unwrap();
            let st = std::process::Command::new(exe).arg("--replay").arg(path).env("NBMC_REPLAY_CHILD", "1").status().expect("spawn");
            if st.success() {
                println!("replay: fault did not reproduce");
                return 0;
            }
            println!("VIOLATION property={} replay={}  # reproduced: child exit {:?}", id, path, st);
            return 1;
        }
        install_fault_handlers(spec.hang_secs);
    }
    // checks that can re-execute a single recorded history directly read the key from here
    std::env::set_var("NBMC_REPLAY_KEY", &v.key);
    let mut obs = Vec::new();
    for _round in 0..2 {
        let mut ctx = Ctx::new(tier, 0, 1, seed, Some((v.space.clone(), v.outer)));
        let r = guard(|| body(&mut ctx));
        if let Err(e) = r {
            eprintln!("MACHINERY: replay body panicked: {}", e);
            return 2;
        }
        let mut keys: Vec<String> = ctx.viols.iter().map(|x| format!("{} => {}", x.key, x.got)).collect();
        keys.sort();
        obs.push((keys, ctx.viols));
    }
    if obs[0].0 != obs[1].0 {
        eprintln!("MACHINERY: replay is not deterministic");
        return 2;
    }
    let viols = &obs[0].1;
    println!("replay of {} (space {}, outer {}): {} violation(s) at this coordinate", path, v.space, v.outer, viols.len());
    let mut hit = false;
    for x in viols {
        if x.key == v.key {
            hit = true;
            println!("  {} :: {}\n    args     {:?}\n    expected {}\n    got      {}", x.key, x.what, x.args, x.expected, x.got);
        }
    }
    if hit {
        println!("VIOLATION property={} replay={}", id, path);
        1
    } else {
        println!("replay: the recorded violation did not reproduce on the current tree");
        0
    }
}
